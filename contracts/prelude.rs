// Assumed specifications for std items used by ppp. EVERYTHING in this file is an
// assumption (trusted base); every entry is listed in the evidence of each check.
pub mod prelude {
    use vstd::prelude::*;
    use std::net::{Ipv4Addr, Ipv6Addr};
    verus! {

    // ---- external types -------------------------------------------------------------
    #[verifier::external_type_specification]
    #[verifier::external_body]
    pub struct ExIpv4Addr(std::net::Ipv4Addr);

    #[verifier::external_type_specification]
    #[verifier::external_body]
    pub struct ExIpv6Addr(std::net::Ipv6Addr);

    #[verifier::external_type_specification]
    #[verifier::external_body]
    pub struct ExAddrParseError(std::net::AddrParseError);

    #[verifier::external_type_specification]
    #[verifier::external_body]
    pub struct ExParseIntError(std::num::ParseIntError);

    #[verifier::external_type_specification]
    #[verifier::external_body]
    pub struct ExUtf8Error(std::str::Utf8Error);

    #[verifier::external_type_specification]
    #[verifier::external_body]
    pub struct ExIoError(std::io::Error);

    #[verifier::external_type_specification]
    pub struct ExIoErrorKind(std::io::ErrorKind);

    // abstract views: the 4 / 16 octets in network order
    pub uninterp spec fn v4_octets(a: Ipv4Addr) -> Seq<u8>;
    pub uninterp spec fn v6_octets(a: Ipv6Addr) -> Seq<u8>;

    #[verifier::external_body]
    pub broadcast proof fn axiom_v4_octets_len(a: Ipv4Addr)
        ensures #[trigger] v4_octets(a).len() == 4
    {}
    #[verifier::external_body]
    pub broadcast proof fn axiom_v6_octets_len(a: Ipv6Addr)
        ensures #[trigger] v6_octets(a).len() == 16
    {}
    // an address is determined by its octets (Ipv4Addr/Ipv6Addr are plain octet arrays)
    #[verifier::external_body]
    pub broadcast proof fn axiom_v4_ext(a: Ipv4Addr, b: Ipv4Addr)
        ensures #[trigger] v4_octets(a) == #[trigger] v4_octets(b) ==> a == b
    {}
    #[verifier::external_body]
    pub broadcast proof fn axiom_v6_ext(a: Ipv6Addr, b: Ipv6Addr)
        ensures #[trigger] v6_octets(a) == #[trigger] v6_octets(b) ==> a == b
    {}

    pub assume_specification[ Ipv4Addr::new ](a: u8, b: u8, c: u8, d: u8) -> (r: Ipv4Addr)
        ensures v4_octets(r) == seq![a, b, c, d];

    pub assume_specification[ Ipv4Addr::octets ](s: &Ipv4Addr) -> (r: [u8; 4])
        ensures r@ == v4_octets(*s);

    pub assume_specification[ Ipv6Addr::octets ](s: &Ipv6Addr) -> (r: [u8; 16])
        ensures r@ == v6_octets(*s);

    pub assume_specification[ <Ipv6Addr as From<[u8; 16]>>::from ](a: [u8; 16]) -> (r: Ipv6Addr)
        ensures v6_octets(r) == a@;

    // ---- big-endian helpers (R3) ----------------------------------------------------
    pub open spec fn be16(a: u8, b: u8) -> int { (a as int) * 256 + (b as int) }

    #[verifier::external_body]
    pub fn u16_from_be_bytes(b: [u8; 2]) -> (r: u16)
        ensures r as int == be16(b[0], b[1])
    { u16::from_be_bytes(b) }

    #[verifier::external_body]
    pub fn u16_to_be_bytes(x: u16) -> (r: [u8; 2])
        ensures r[0] as int == (x as int) / 256, r[1] as int == (x as int) % 256
    { x.to_be_bytes() }

    pub broadcast group prelude_axioms {
        axiom_v4_octets_len, axiom_v6_octets_len, axiom_v4_ext, axiom_v6_ext,
    }
    }
}
