// Assumed specifications for std items used by ppp. EVERYTHING in this file is an
// assumption (trusted base); every entry is listed in the evidence of each check.
pub mod prelude {
    use vstd::prelude::*;
    pub use vstd::string::StringSliceAdditionalSpecFns;
    use std::net::{Ipv4Addr, Ipv6Addr};
    verus! {

    // ---- external types -------------------------------------------------------------
    #[verifier::external_type_specification]
    #[verifier::external_body]
    pub struct ExIpv4Addr(std::net::Ipv4Addr);

    #[verifier::external_type_specification]
    #[verifier::external_body]
    pub struct ExIpv6Addr(std::net::Ipv6Addr);

    #[verifier::external_type_specification]
    #[verifier::external_body]
    pub struct ExAddrParseError(std::net::AddrParseError);

    #[verifier::external_type_specification]
    #[verifier::external_body]
    pub struct ExParseIntError(std::num::ParseIntError);

    #[verifier::external_type_specification]
    #[verifier::external_body]
    pub struct ExUtf8Error(std::str::Utf8Error);

    #[verifier::external_type_specification]
    #[verifier::external_body]
    pub struct ExIoError(std::io::Error);

    #[verifier::external_type_specification]
    pub struct ExIoErrorKind(std::io::ErrorKind);

    #[verifier::external_type_specification]
    pub struct ExSocketAddr(std::net::SocketAddr);

    #[verifier::external_type_specification]
    #[verifier::external_body]
    pub struct ExSocketAddrV4(std::net::SocketAddrV4);

    #[verifier::external_type_specification]
    #[verifier::external_body]
    pub struct ExSocketAddrV6(std::net::SocketAddrV6);

    // a socket address is modelled by its IP and port (flow-info / scope of V6 are not
    // observable through ip() / port(), which is all ppp uses)
    pub uninterp spec fn sa4_ip(a: std::net::SocketAddrV4) -> Ipv4Addr;
    pub uninterp spec fn sa4_port(a: std::net::SocketAddrV4) -> u16;
    pub uninterp spec fn sa6_ip(a: std::net::SocketAddrV6) -> Ipv6Addr;
    pub uninterp spec fn sa6_port(a: std::net::SocketAddrV6) -> u16;

    pub assume_specification[ std::net::SocketAddrV4::ip ](s: &std::net::SocketAddrV4) -> (r: &Ipv4Addr)
        ensures *r == sa4_ip(*s);
    pub assume_specification[ std::net::SocketAddrV4::port ](s: &std::net::SocketAddrV4) -> (r: u16)
        ensures r == sa4_port(*s);
    pub assume_specification[ std::net::SocketAddrV6::ip ](s: &std::net::SocketAddrV6) -> (r: &Ipv6Addr)
        ensures *r == sa6_ip(*s);
    pub assume_specification[ std::net::SocketAddrV6::port ](s: &std::net::SocketAddrV6) -> (r: u16)
        ensures r == sa6_port(*s);

    // abstract views: the 4 / 16 octets in network order
    pub uninterp spec fn v4_octets(a: Ipv4Addr) -> Seq<u8>;
    pub uninterp spec fn v6_octets(a: Ipv6Addr) -> Seq<u8>;

    #[verifier::external_body]
    pub broadcast proof fn axiom_v4_octets_len(a: Ipv4Addr)
        ensures #[trigger] v4_octets(a).len() == 4
    {}
    #[verifier::external_body]
    pub broadcast proof fn axiom_v6_octets_len(a: Ipv6Addr)
        ensures #[trigger] v6_octets(a).len() == 16
    {}
    // an address is determined by its octets (Ipv4Addr/Ipv6Addr are plain octet arrays)
    #[verifier::external_body]
    pub broadcast proof fn axiom_v4_ext(a: Ipv4Addr, b: Ipv4Addr)
        ensures #[trigger] v4_octets(a) == #[trigger] v4_octets(b) ==> a == b
    {}
    #[verifier::external_body]
    pub broadcast proof fn axiom_v6_ext(a: Ipv6Addr, b: Ipv6Addr)
        ensures #[trigger] v6_octets(a) == #[trigger] v6_octets(b) ==> a == b
    {}

    pub assume_specification[ Ipv4Addr::new ](a: u8, b: u8, c: u8, d: u8) -> (r: Ipv4Addr)
        ensures v4_octets(r) == seq![a, b, c, d];

    pub assume_specification[ Ipv4Addr::octets ](s: &Ipv4Addr) -> (r: [u8; 4])
        ensures r@ == v4_octets(*s);

    pub assume_specification[ Ipv6Addr::octets ](s: &Ipv6Addr) -> (r: [u8; 16])
        ensures r@ == v6_octets(*s);

    pub assume_specification[ <Ipv6Addr as From<[u8; 16]>>::from ](a: [u8; 16]) -> (r: Ipv6Addr)
        ensures v6_octets(r) == a@;

    // ---- big-endian helpers (R3) ----------------------------------------------------
    pub open spec fn be16(a: u8, b: u8) -> int { (a as int) * 256 + (b as int) }

    #[verifier::external_body]
    pub fn u16_from_be_bytes(b: [u8; 2]) -> (r: u16)
        ensures r as int == be16(b[0], b[1])
    { u16::from_be_bytes(b) }

    #[verifier::external_body]
    pub fn i16_from_be_bytes(b: [u8; 2]) -> (r: i16)
        ensures be_int(r as int, 2) == b@
    { i16::from_be_bytes(b) }
    #[verifier::external_body]
    pub fn u32_from_be_bytes(b: [u8; 4]) -> (r: u32)
        ensures be_int(r as int, 4) == b@
    { u32::from_be_bytes(b) }
    #[verifier::external_body]
    pub fn i32_from_be_bytes(b: [u8; 4]) -> (r: i32)
        ensures be_int(r as int, 4) == b@
    { i32::from_be_bytes(b) }
    #[verifier::external_body]
    pub fn u64_from_be_bytes(b: [u8; 8]) -> (r: u64)
        ensures be_int(r as int, 8) == b@
    { u64::from_be_bytes(b) }
    #[verifier::external_body]
    pub fn i64_from_be_bytes(b: [u8; 8]) -> (r: i64)
        ensures be_int(r as int, 8) == b@
    { i64::from_be_bytes(b) }
    #[verifier::external_body]
    pub fn u16_to_be_bytes(x: u16) -> (r: [u8; 2])
        ensures r[0] as int == (x as int) / 256, r[1] as int == (x as int) % 256, r@ == be_int(x as int, 2)
    { x.to_be_bytes() }

    // integer `to_be_bytes` for the twelve WriteToHeader instances: big-endian two's complement
    // at the natural width (usize/isize: 64-bit target); cross-checked by complete Kani harnesses
    /// big-endian encoding of the natural number `v` on `n` bytes (v < 256^n)
    pub open spec fn be_nat(v: nat, n: nat) -> Seq<u8>
        decreases n
    {
        if n == 0 { Seq::empty() } else { be_nat(v / 256, (n - 1) as nat).push((v % 256) as u8) }
    }

    pub open spec fn pow256(n: nat) -> nat
        decreases n
    { if n == 0 { 1 } else { 256 * pow256((n - 1) as nat) } }

    /// two's-complement big-endian encoding of the integer `x` on `n` bytes
    pub open spec fn be_int(x: int, n: nat) -> Seq<u8> {
        if x >= 0 { be_nat(x as nat, n) } else { be_nat((x + pow256(n)) as nat, n) }
    }


    #[verifier::external_body]
    pub fn u8_to_be_bytes(x: u8) -> (r: [u8; 1])
        ensures r@ == be_int(x as int, 1)
    { x.to_be_bytes() }
    #[verifier::external_body]
    pub fn u32_to_be_bytes(x: u32) -> (r: [u8; 4])
        ensures r@ == be_int(x as int, 4)
    { x.to_be_bytes() }
    #[verifier::external_body]
    pub fn u64_to_be_bytes(x: u64) -> (r: [u8; 8])
        ensures r@ == be_int(x as int, 8)
    { x.to_be_bytes() }
    #[verifier::external_body]
    pub fn u128_to_be_bytes(x: u128) -> (r: [u8; 16])
        ensures r@ == be_int(x as int, 16)
    { x.to_be_bytes() }
    #[verifier::external_body]
    pub fn usize_to_be_bytes(x: usize) -> (r: [u8; 8])
        ensures r@ == be_int(x as int, 8)
    { x.to_be_bytes() }
    #[verifier::external_body]
    pub fn i8_to_be_bytes(x: i8) -> (r: [u8; 1])
        ensures r@ == be_int(x as int, 1)
    { x.to_be_bytes() }
    #[verifier::external_body]
    pub fn i16_to_be_bytes(x: i16) -> (r: [u8; 2])
        ensures r@ == be_int(x as int, 2)
    { x.to_be_bytes() }
    #[verifier::external_body]
    pub fn i32_to_be_bytes(x: i32) -> (r: [u8; 4])
        ensures r@ == be_int(x as int, 4)
    { x.to_be_bytes() }
    #[verifier::external_body]
    pub fn i64_to_be_bytes(x: i64) -> (r: [u8; 8])
        ensures r@ == be_int(x as int, 8)
    { x.to_be_bytes() }
    #[verifier::external_body]
    pub fn i128_to_be_bytes(x: i128) -> (r: [u8; 16])
        ensures r@ == be_int(x as int, 16)
    { x.to_be_bytes() }
    #[verifier::external_body]
    pub fn isize_to_be_bytes(x: isize) -> (r: [u8; 8])
        ensures r@ == be_int(x as int, 8)
    { x.to_be_bytes() }

    // slices never exceed isize::MAX bytes
    #[verifier::external_body]
    pub broadcast proof fn axiom_slice_len_bound(s: &[u8])
        ensures #[trigger] s@.len() <= isize::MAX
    {}

    // R10: `v[a..b].copy_from_slice(src)` on a Vec (this Verus has no usable spec for a mutable
    // sub-range borrow of a Vec): replaces exactly that range; panics unless the lengths agree
    #[verifier::external_body]
    pub fn vec_copy_range(v: &mut Vec<u8>, a: usize, b: usize, src: &[u8])
        requires a <= b <= old(v)@.len(), b - a == src@.len(),
        ensures final(v)@ =~= old(v)@.subrange(0, a as int) + src@ + old(v)@.subrange(b as int, old(v)@.len() as int)
    { v[a..b].copy_from_slice(src) }

    // R12: iteration protocol for generic iterators.  Assumption: an `IntoIterator` argument
    // denotes a finite sequence of items (`into_seq`), delivered in order by `next`.
    pub uninterp spec fn into_seq<II: IntoIterator>(x: II) -> Seq<II::Item>;
    pub uninterp spec fn iter_remaining<I: Iterator>(it: I) -> Seq<I::Item>;

    #[verifier::external_body]
    pub fn iter_begin<II: IntoIterator>(x: II) -> (r: II::IntoIter)
        ensures iter_remaining(r) == into_seq(x)
    { x.into_iter() }

    #[verifier::external_body]
    pub fn iter_next<I: Iterator>(it: &mut I) -> (r: Option<I::Item>)
        ensures
            match r {
                None => iter_remaining(*old(it)).len() == 0 && iter_remaining(*final(it)).len() == 0,
                Some(x) => iter_remaining(*old(it)).len() > 0 && x == iter_remaining(*old(it))[0]
                    && iter_remaining(*final(it)) == iter_remaining(*old(it)).subrange(1, iter_remaining(*old(it)).len() as int),
            }
    { it.next() }

    // R19: a truncating `as u16` cast (Verus leaves the result of an out-of-range cast unspecified)
    #[verifier::external_body]
    pub fn usize_trunc_u16(x: usize) -> (r: u16)
        ensures r as int == (x as int) % 65536
    { x as u16 }

    // R9: std::cmp::min, used by ppp on usize only
    #[verifier::external_body]
    pub fn usize_min(a: usize, b: usize) -> (r: usize)
        ensures r == (if a <= b { a } else { b })
    { std::cmp::min(a, b) }

    // ---- Cow / slice / Vec helpers ----------------------------------------------------
    pub assume_specification<T: Clone>[ <[T]>::to_vec ](s: &[T]) -> (r: Vec<T>)
        ensures r@ == s@;

    pub assume_specification<'b, T>[ <[T] as AsRef<[T]>>::as_ref ](s: &'b [T]) -> (r: &'b [T])
        ensures r@ == s@;

    // the reflexive conversion `impl<T> From<T> for T` is the identity; `impl<T> From<T> for Option<T>` is `Some`
    pub assume_specification<T>[ <T as From<T>>::from ](a: T) -> (r: T)
        ensures r == a;
    pub assume_specification<T>[ <Option<T> as From<T>>::from ](a: T) -> (r: Option<T>)
        ensures r == Some(a);

    pub assume_specification<'a, T: Clone>[ <std::borrow::Cow<'a, [T]> as From<&'a [T]>>::from ](s: &'a [T]) -> (r: std::borrow::Cow<'a, [T]>)
        ensures r == std::borrow::Cow::<'a, [T]>::Borrowed(s);

    // Deref of a Cow yields the viewed contents
    pub uninterp spec fn cow_deref_spec<'a, 'b, B: ?Sized + ToOwned>(c: &'b std::borrow::Cow<'a, B>) -> &'b B;
    pub assume_specification<'a, 'b, B: ?Sized + ToOwned>[ <std::borrow::Cow<'a, B> as std::ops::Deref>::deref ](c: &'b std::borrow::Cow<'a, B>) -> (r: &'b B)
        ensures r == cow_deref_spec(c);
    #[verifier::external_body]
    pub broadcast proof fn axiom_cow_deref_bytes<'a, 'b>(c: &'b std::borrow::Cow<'a, [u8]>)
        ensures (#[trigger] cow_deref_spec::<[u8]>(c))@ == c@
    {}

    pub broadcast proof fn lemma_bitor_comm_u8(a: u8, b: u8)
        ensures #[trigger] (a | b) == b | a
    { assert((a | b) == b | a) by(bit_vector); }

    pub uninterp spec fn cow_as_ref_spec<'a, 'b, T: ?Sized + ToOwned>(c: &'b std::borrow::Cow<'a, T>) -> &'b T;

    pub assume_specification<'a, 'b, T: ?Sized + ToOwned>[ <std::borrow::Cow<'a, T> as AsRef<T>>::as_ref ](c: &'b std::borrow::Cow<'a, T>) -> (r: &'b T)
        ensures r == cow_as_ref_spec(c);

    #[verifier::external_body]
    pub broadcast proof fn axiom_cow_as_ref_bytes<'a, 'b>(c: &'b std::borrow::Cow<'a, [u8]>)
        ensures (#[trigger] cow_as_ref_spec::<[u8]>(c))@ == c@
    {}

    // ---- strings: byte-level model -----------------------------------------------------
    /// the UTF-8 bytes of a string slice (vstd's own byte view)
    pub open spec fn sb(s: &str) -> Seq<u8> { s.spec_bytes() }

    // a string slice is determined by its bytes / by its chars; it fits in memory
    #[verifier::external_body]
    pub broadcast proof fn axiom_str_ext_chars(a: &str, b: &str)
        ensures #[trigger] a@ == #[trigger] b@ ==> a == b
    {}
    /// PROVED: equal bytes decode to equal chars (vstd::utf8), hence equal slices
    pub broadcast proof fn lemma_str_ext_bytes(a: &str, b: &str)
        ensures #[trigger] sb(a) == #[trigger] sb(b) ==> a == b
    {
        if sb(a) == sb(b) {
            vstd::utf8::encode_utf8_decode_utf8(a@);
            vstd::utf8::encode_utf8_decode_utf8(b@);
            axiom_str_ext_chars(a, b);
        }
    }
    #[verifier::external_body]
    pub broadcast proof fn axiom_str_len_bound(a: &str)
        ensures #[trigger] sb(a).len() <= isize::MAX
    {}

    /// bytes of an owned String / of a `Cow<str>`
    pub open spec fn string_bytes(s: String) -> Seq<u8> { vstd::utf8::encode_utf8(s@) }
    pub open spec fn cow_str_bytes(c: std::borrow::Cow<'_, str>) -> Seq<u8> {
        match c { std::borrow::Cow::Borrowed(s) => sb(s), std::borrow::Cow::Owned(s) => string_bytes(s) }
    }
    #[verifier::external_body]
    pub broadcast proof fn axiom_cow_deref_str<'a, 'b>(c: &'b std::borrow::Cow<'a, str>)
        ensures sb(#[trigger] cow_deref_spec::<str>(c)) == cow_str_bytes(*c)
    {}
    // R16: `cow.to_string()` (ToString through Display of Cow<str>) copies the text
    #[verifier::external_body]
    pub fn cow_str_to_string(c: &std::borrow::Cow<'_, str>) -> (r: String)
        ensures string_bytes(r) == cow_str_bytes(*c)
    { c.to_string() }

    // R17: slicing a `str` (this vstd gives `&s[a..b]` a precondition but no postcondition).
    // Preconditions are std's panic conditions: in range and on char boundaries.
    pub open spec fn str_cut_ok(b: Seq<u8>, i: int) -> bool { 0 <= i <= b.len() && vstd::utf8::is_char_boundary(b, i) }
    #[verifier::external_body]
    pub fn str_slice<'a>(s: &'a str, a: usize, b: usize) -> (r: &'a str)
        requires a <= b, str_cut_ok(sb(s), a as int), str_cut_ok(sb(s), b as int)
        ensures sb(r) == sb(s).subrange(a as int, b as int)
    { &s[a..b] }
    #[verifier::external_body]
    pub fn str_slice_from<'a>(s: &'a str, a: usize) -> (r: &'a str)
        requires str_cut_ok(sb(s), a as int)
        ensures sb(r) == sb(s).subrange(a as int, sb(s).len() as int)
    { &s[a..] }
    #[verifier::external_body]
    pub fn str_slice_to<'a>(s: &'a str, b: usize) -> (r: &'a str)
        requires str_cut_ok(sb(s), b as int)
        ensures sb(r) == sb(s).subrange(0, b as int)
    { &s[..b] }
    #[verifier::external_body]
    pub fn str_get_to<'a>(s: &'a str, b: usize) -> (r: Option<&'a str>)
        ensures r is Some == str_cut_ok(sb(s), b as int), r matches Some(t) ==> sb(t) == sb(s).subrange(0, b as int)
    { s.get(..b) }
    // UTF-8 facts: an ASCII byte starts a character and ends one; both ends are boundaries.
    // PROVED here from vstd::utf8's definitions and lemmas (no longer assumed).
    pub broadcast proof fn lemma_boundary_ascii(b: Seq<u8>, i: int)
        ensures vstd::utf8::valid_utf8(b) && 0 <= i < b.len() && b[i] < 128 ==> #[trigger] vstd::utf8::is_char_boundary(b, i)
    {
        if vstd::utf8::valid_utf8(b) && 0 <= i < b.len() && b[i] < 128 {
            vstd::utf8::is_char_boundary_iff_not_is_continuation_byte(b, i);
        }
    }
    /// a one-byte (ASCII) character that starts at a boundary ends at a boundary (induction over the scalars of `b`)
    pub proof fn lemma_boundary_step_ascii(b: Seq<u8>, i: int)
        requires vstd::utf8::valid_utf8(b), 0 < i <= b.len(), b[i - 1] < 128, vstd::utf8::is_char_boundary(b, i - 1)
        ensures vstd::utf8::is_char_boundary(b, i)
        decreases b.len()
    {
        if i - 1 == 0 {
            assert(vstd::utf8::is_leading_byte_width_1(b[0]));
            assert(vstd::utf8::length_of_first_scalar(b) == 1);
            assert(vstd::utf8::is_char_boundary(vstd::utf8::pop_first_scalar(b), 0));
        } else {
            let l = vstd::utf8::length_of_first_scalar(b);
            let p = vstd::utf8::pop_first_scalar(b);
            assert(vstd::utf8::valid_utf8(p));
            assert(1 <= l <= 4);
            assert(vstd::utf8::is_char_boundary(p, i - 1 - l));
            if i - 1 - l < 0 { assert(false); }
            assert(p[i - 1 - l] == b[i - 1]);
            lemma_boundary_step_ascii(p, i - l);
        }
    }
    pub broadcast proof fn lemma_boundary_after_ascii(b: Seq<u8>, i: int)
        ensures vstd::utf8::valid_utf8(b) && 0 < i <= b.len() && b[i - 1] < 128 ==> #[trigger] vstd::utf8::is_char_boundary(b, i)
    {
        if vstd::utf8::valid_utf8(b) && 0 < i <= b.len() && b[i - 1] < 128 {
            vstd::utf8::is_char_boundary_iff_not_is_continuation_byte(b, i - 1);
            lemma_boundary_step_ascii(b, i);
        }
    }
    /// PROVED: a prefix of valid UTF-8 is itself valid exactly when it ends on a character boundary
    /// (<== is vstd's valid_utf8_split; ==> by induction over the scalars)
    pub proof fn lemma_valid_prefix_is_boundary(s: Seq<u8>, n: int)
        requires vstd::utf8::valid_utf8(s), 0 <= n <= s.len(), vstd::utf8::valid_utf8(s.subrange(0, n))
        ensures vstd::utf8::is_char_boundary(s, n)
        decreases s.len()
    {
        if n > 0 {
            let p = s.subrange(0, n);
            assert(p[0] == s[0]);
            let l = vstd::utf8::length_of_first_scalar(s);
            assert(vstd::utf8::length_of_first_scalar(p) == l);
            assert(vstd::utf8::valid_first_scalar(p));
            assert(vstd::utf8::valid_leading_and_continuation_bytes_first_codepoint(p));
            assert(n >= l);
            assert(1 <= l <= 4);
            let ps = vstd::utf8::pop_first_scalar(s);
            let pp = vstd::utf8::pop_first_scalar(p);
            assert(pp =~= ps.subrange(0, n - l));
            assert(vstd::utf8::valid_utf8(ps));
            assert(vstd::utf8::valid_utf8(pp));
            lemma_valid_prefix_is_boundary(ps, n - l);
        }
    }
    pub proof fn lemma_utf8_prefix_iff_boundary(s: Seq<u8>, n: int)
        requires vstd::utf8::valid_utf8(s), 0 <= n <= s.len()
        ensures vstd::utf8::valid_utf8(s.subrange(0, n)) == vstd::utf8::is_char_boundary(s, n)
    {
        if vstd::utf8::is_char_boundary(s, n) { vstd::utf8::valid_utf8_split(s, n); }
        if vstd::utf8::valid_utf8(s.subrange(0, n)) { lemma_valid_prefix_is_boundary(s, n); }
    }
    pub broadcast proof fn lemma_boundary_ends(b: Seq<u8>)
        ensures vstd::utf8::valid_utf8(b) ==> vstd::utf8::is_char_boundary(b, 0) && #[trigger] vstd::utf8::is_char_boundary(b, b.len() as int)
    {
        if vstd::utf8::valid_utf8(b) { vstd::utf8::is_char_boundary_start_end_of_seq(b); }
    }
    /// PROVED: both variants of a `Cow<str>` hold the UTF-8 encoding of a char sequence
    pub broadcast proof fn lemma_cow_str_valid(c: std::borrow::Cow<'_, str>)
        ensures vstd::utf8::valid_utf8(#[trigger] cow_str_bytes(c))
    {
        match c {
            std::borrow::Cow::Borrowed(s) => { vstd::utf8::encode_utf8_valid_utf8(s@); },
            std::borrow::Cow::Owned(s) => { vstd::utf8::encode_utf8_valid_utf8(s@); },
        }
    }

    /// pattern searches, by pattern type (str::starts_with / ends_with / find are generic over
    /// the unstable `Pattern` trait); the axioms below fix them for `&str` and `char` patterns
    pub uninterp spec fn pat_starts<P>(s: Seq<u8>, p: P) -> bool;
    pub uninterp spec fn pat_ends<P>(s: Seq<u8>, p: P) -> bool;
    pub uninterp spec fn pat_find<P>(s: Seq<u8>, p: P) -> Option<usize>;

    #[verifier::allow(undeclared_external_trait)]
    pub assume_specification<P: std::str::pattern::Pattern>[ str::starts_with::<P> ](s: &str, p: P) -> (r: bool)
        ensures r == pat_starts(sb(s), p);
    #[verifier::allow(undeclared_external_trait)]
    pub assume_specification<P: std::str::pattern::Pattern>[ str::ends_with::<P> ](s: &str, p: P) -> (r: bool)
        where for<'x> P::Searcher<'x>: std::str::pattern::ReverseSearcher<'x>,
        ensures r == pat_ends(sb(s), p);
    #[verifier::allow(undeclared_external_trait)]
    pub assume_specification<P: std::str::pattern::Pattern>[ str::find::<P> ](s: &str, p: P) -> (r: Option<usize>)
        ensures r == pat_find(sb(s), p);

    pub open spec fn is_prefix_of(p: Seq<u8>, s: Seq<u8>) -> bool { p.len() <= s.len() && s.subrange(0, p.len() as int) =~= p }
    pub open spec fn is_suffix_of(p: Seq<u8>, s: Seq<u8>) -> bool { p.len() <= s.len() && s.subrange(s.len() - p.len(), s.len() as int) =~= p }
    /// index of the first occurrence of byte `c`, or s.len() when there is none
    pub open spec fn first_index_of(s: Seq<u8>, c: u8) -> int
        decreases s.len()
    { if s.len() == 0 { 0 } else if s[0] == c { 0 } else { 1 + first_index_of(s.subrange(1, s.len() as int), c) } }

    pub broadcast proof fn lemma_first_index_bounds(s: Seq<u8>, c: u8)
        ensures 0 <= #[trigger] first_index_of(s, c) <= s.len(),
            first_index_of(s, c) < s.len() ==> s[first_index_of(s, c)] == c,
            forall|j: int| 0 <= j < first_index_of(s, c) ==> s[j] != c,
        decreases s.len()
    {
        if s.len() > 0 && s[0] != c {
            let t = s.subrange(1, s.len() as int);
            lemma_first_index_bounds(t, c);
            assert forall|j: int| 0 <= j < first_index_of(s, c) implies s[j] != c by {
                if j > 0 { assert(t[j - 1] == s[j]); }
            }
        }
    }

    /// the first occurrence is found in every prefix that contains it
    pub broadcast proof fn lemma_first_index_prefix(s: Seq<u8>, k: int, c: u8)
        requires 0 <= k <= s.len()
        ensures #[trigger] first_index_of(s.subrange(0, k), c) == (if first_index_of(s, c) < k { first_index_of(s, c) } else { k })
        decreases s.len()
    {
        let p = s.subrange(0, k);
        lemma_first_index_bounds(s, c);
        if k == 0 {
            assert(p.len() == 0);
        } else if s[0] == c {
            assert(p[0] == c);
        } else {
            let t = s.subrange(1, s.len() as int);
            lemma_first_index_prefix(t, k - 1, c);
            let p1 = p.subrange(1, p.len() as int);
            assert(p1 =~= t.subrange(0, k - 1));
            assert(p[0] != c);
            assert(first_index_of(p, c) == 1 + first_index_of(p1, c));
            assert(first_index_of(s, c) == 1 + first_index_of(t, c));
        }
    }

    #[verifier::external_body]
    pub broadcast proof fn axiom_pat_starts_str(s: Seq<u8>, p: &str)
        ensures #[trigger] pat_starts::<&str>(s, p) == is_prefix_of(sb(p), s)
    {}
    #[verifier::external_body]
    pub broadcast proof fn axiom_pat_ends_str(s: Seq<u8>, p: &str)
        ensures #[trigger] pat_ends::<&str>(s, p) == is_suffix_of(sb(p), s)
    {}
    // char patterns: only ASCII chars are used by ppp (' ', '\r', '+'); for an ASCII char the
    // char-level search of a valid UTF-8 string coincides with the byte-level search
    #[verifier::external_body]
    pub broadcast proof fn axiom_pat_starts_char(s: Seq<u8>, c: char)
        ensures (c as u32) < 128 ==> #[trigger] pat_starts::<char>(s, c) == (s.len() > 0 && s[0] == c as u8)
    {}
    #[verifier::external_body]
    pub broadcast proof fn axiom_pat_find_char(s: Seq<u8>, c: char)
        ensures (c as u32) < 128 ==> #[trigger] pat_find::<char>(s, c) ==
            (if first_index_of(s, c as u8) < s.len() { Some(first_index_of(s, c as u8) as usize) } else { None::<usize> })
    {}

    #[verifier::external_trait_specification]
    pub trait ExFromStr: Sized {
        type ExternalTraitSpecificationFor: std::str::FromStr;
        type Err;
        fn from_str(s: &str) -> Result<Self, Self::Err>;
    }

    /// `str::parse::<F>()` / `F::from_str`: the std parser of F as a deterministic function of the bytes
    pub uninterp spec fn from_str_spec<F: std::str::FromStr>(s: Seq<u8>) -> Result<F, F::Err>;

    pub assume_specification<F: std::str::FromStr>[ str::parse::<F> ](s: &str) -> (r: Result<F, F::Err>)
        ensures r == from_str_spec::<F>(sb(s));

    // `"".parse::<u16>()` is an error (IntErrorKind::Empty)

    // std's address parsers accept only texts over the address alphabets: decimal digits and '.'
    // for IPv4; hexadecimal digits, ':' and '.' for IPv6 (so no space, CR or other letter)
    pub open spec fn addr_byte(b: u8) -> bool {
        (48u8 <= b <= 57u8) || (65u8 <= b <= 70u8) || (97u8 <= b <= 102u8) || b == 58u8 || b == 46u8
    }
    pub open spec fn addr_bytes(s: Seq<u8>) -> bool { forall|i: int| 0 <= i < s.len() ==> addr_byte(#[trigger] s[i]) }
    pub open spec fn bytes_no_sp_cr(s: Seq<u8>) -> bool { forall|i: int| 0 <= i < s.len() ==> #[trigger] s[i] != 32u8 && s[i] != 13u8 }
    #[verifier::external_body]
    pub broadcast proof fn axiom_ipv4_text_no_sep(s: Seq<u8>)
        ensures #[trigger] from_str_spec::<Ipv4Addr>(s) is Ok ==> addr_bytes(s) && bytes_no_sp_cr(s)
    {}
    #[verifier::external_body]
    pub broadcast proof fn axiom_ipv6_text_no_sep(s: Seq<u8>)
        ensures #[trigger] from_str_spec::<Ipv6Addr>(s) is Ok ==> addr_bytes(s) && bytes_no_sp_cr(s)
    {}

    /// value of a decimal digit string
    pub open spec fn dec_value(s: Seq<u8>) -> nat
        decreases s.len()
    {
        if s.len() == 0 { 0 } else { dec_value(s.subrange(0, s.len() - 1)) * 10 + (s[s.len() - 1] - 48u8) as nat }
    }
    pub open spec fn is_digit(b: u8) -> bool { 48u8 <= b <= 57u8 }
    pub open spec fn all_digits(s: Seq<u8>) -> bool { forall|i: int| 0 <= i < s.len() ==> is_digit(#[trigger] s[i]) }
    /// `u16::from_str`: an optional '+', then one or more decimal digits whose value fits in 16 bits
    pub open spec fn u16_digits(s: Seq<u8>) -> Seq<u8> {
        if s.len() > 0 && s[0] == 43u8 { s.subrange(1, s.len() as int) } else { s }
    }
    #[verifier::external_body]
    pub broadcast proof fn axiom_u16_text(s: Seq<u8>)
        ensures (#[trigger] from_str_spec::<u16>(s)) matches Ok(v)
                    ==> u16_digits(s).len() >= 1 && all_digits(u16_digits(s)) && dec_value(u16_digits(s)) == v,
                (u16_digits(s).len() >= 1 && all_digits(u16_digits(s)) && dec_value(u16_digits(s)) <= 65535)
                    ==> from_str_spec::<u16>(s) is Ok,
    {}

    /// PROVED from axiom_u16_text: `"".parse::<u16>()` is an error (IntErrorKind::Empty)
    pub broadcast proof fn lemma_u16_parse_empty(s: Seq<u8>)
        ensures s.len() == 0 ==> #[trigger] from_str_spec::<u16>(s) is Err
    {
        axiom_u16_text(s);
    }

    // ---- std Display of addresses and ports (core::fmt is outside Verus): what `to_string` prints.
    // Assumed round-trip facts of std: Display then FromStr is the identity, with bounded lengths.
    pub uninterp spec fn display_ipv4(a: Ipv4Addr) -> Seq<u8>;
    pub uninterp spec fn display_ipv6(a: Ipv6Addr) -> Seq<u8>;
    /// canonical decimal text of a natural number (what std's integer Display prints)
    pub open spec fn dec_digits(n: nat) -> Seq<u8>
        decreases n
    {
        if n < 10 { seq![(48 + n) as u8] } else { dec_digits(n / 10).push((48 + n % 10) as u8) }
    }
    pub open spec fn display_u16(x: u16) -> Seq<u8> { dec_digits(x as nat) }
    pub proof fn lemma_dec_digits(n: nat)
        ensures dec_digits(n).len() >= 1, all_digits(dec_digits(n)), dec_value(dec_digits(n)) == n,
            dec_digits(n).len() == 1 || dec_digits(n)[0] != 48u8,
            n < 10 ==> dec_digits(n).len() == 1,
            10 <= n < 100 ==> dec_digits(n).len() == 2,
            100 <= n < 1000 ==> dec_digits(n).len() == 3,
            1000 <= n < 10000 ==> dec_digits(n).len() == 4,
            10000 <= n < 100000 ==> dec_digits(n).len() == 5,
        decreases n
    {
        let d = dec_digits(n);
        if n < 10 {
            assert(d =~= seq![(48 + n) as u8]);
            assert(d.subrange(0, 0).len() == 0);
            assert(dec_value(d.subrange(0, 0)) == 0);
        } else {
            lemma_dec_digits(n / 10);
            let p = dec_digits(n / 10);
            assert(d.subrange(0, d.len() - 1) =~= p);
            assert(d[d.len() - 1] == (48 + n % 10) as u8);
            assert(d[0] == p[0]);
            assert(p.len() == 1 ==> p[0] != 48u8) by { if p.len() == 1 { assert(dec_value(p.subrange(0, 0)) == 0); assert(p.subrange(0, p.len() - 1) =~= p.subrange(0, 0)); } };
        }
    }
    #[verifier::external_body]
    pub broadcast proof fn axiom_display_ipv4(a: Ipv4Addr)
        ensures from_str_spec::<Ipv4Addr>(#[trigger] display_ipv4(a)) == Ok::<Ipv4Addr, std::net::AddrParseError>(a), display_ipv4(a).len() <= 15
    {}
    #[verifier::external_body]
    pub broadcast proof fn axiom_display_ipv6(a: Ipv6Addr)
        ensures from_str_spec::<Ipv6Addr>(#[trigger] display_ipv6(a)) == Ok::<Ipv6Addr, std::net::AddrParseError>(a), display_ipv6(a).len() <= 39
    {}
    /// PROVED (display_u16 is the canonical decimal text; that std prints it is the assumption on `fmt_arg`)
    pub broadcast proof fn lemma_display_u16(x: u16)
        ensures 1 <= (#[trigger] display_u16(x)).len() <= 5, all_digits(display_u16(x)), dec_value(display_u16(x)) == x,
            display_u16(x).len() == 1 || display_u16(x)[0] != 48u8
    {
        lemma_dec_digits(x as nat);
    }

    // R20: formatting.  A `Formatter` is modelled by the bytes written to it so far.
    pub uninterp spec fn fmt_out(f: std::fmt::Formatter<'_>) -> Seq<u8>;
    /// what Display prints for the argument types used by ppp (std's own printers)
    pub trait DisplayBytes { spec fn display_bytes(&self) -> Seq<u8>; }
    impl DisplayBytes for Ipv4Addr { open spec fn display_bytes(&self) -> Seq<u8> { display_ipv4(*self) } }
    impl DisplayBytes for Ipv6Addr { open spec fn display_bytes(&self) -> Seq<u8> { display_ipv6(*self) } }
    impl DisplayBytes for u16 { open spec fn display_bytes(&self) -> Seq<u8> { display_u16(*self) } }
    /// decimal text of a usize (only its existence is used: v2 `Header`'s Display, C03)
    pub open spec fn display_usize(x: usize) -> Seq<u8> { dec_digits(x as nat) }
    impl DisplayBytes for usize { open spec fn display_bytes(&self) -> Seq<u8> { display_usize(*self) } }
    #[verifier::external_body]
    pub fn fmt_lit(f: &mut std::fmt::Formatter<'_>, s: &str) -> (r: std::fmt::Result)
        ensures r is Ok ==> fmt_out(*final(f)) == fmt_out(*old(f)) + sb(s)
    { f.write_str(s) }
    #[verifier::external_body]
    pub fn fmt_arg<T: std::fmt::Display + DisplayBytes>(f: &mut std::fmt::Formatter<'_>, x: &T) -> (r: std::fmt::Result)
        ensures r is Ok ==> fmt_out(*final(f)) == fmt_out(*old(f)) + x.display_bytes()
    { write!(f, "{}", x) }
    /// R20, a hole with a format spec (`{:?}`, `{:#X}`, ..): std's printer for the argument is trusted
    /// to return; WHAT it prints is left unspecified (only that earlier output is kept)
    #[verifier::external_body]
    pub fn fmt_arg_styled<T: ?Sized>(f: &mut std::fmt::Formatter<'_>, x: &T) -> (r: std::fmt::Result)
        ensures r is Ok ==> fmt_out(*old(f)).is_prefix_of(fmt_out(*final(f)))
    { unimplemented!() }
    #[verifier::external_body]
    pub broadcast proof fn axiom_cow_as_ref_str<'a, 'b>(c: &'b std::borrow::Cow<'a, str>)
        ensures sb(#[trigger] cow_as_ref_spec::<str>(c)) == cow_str_bytes(*c)
    {}

    // Option::filter with a specified predicate
    pub assume_specification<T, P: FnOnce(&T) -> bool>[ Option::<T>::filter ](o: Option<T>, p: P) -> (r: Option<T>)
        requires o matches Some(x) ==> p.requires((&x,))
        ensures match o { None => r is None, Some(x) => (r == Some(x) && p.ensures((&x,), true)) || (r is None && p.ensures((&x,), false)) };

    // R15: `s.iter().position(f)`
    #[verifier::external_body]
    pub fn slice_position<F: Fn(&u8) -> bool>(s: &[u8], f: F) -> (r: Option<usize>)
        requires forall|i: int| 0 <= i < s@.len() ==> f.requires((&#[trigger] s@[i],))
        ensures match r {
            Some(i) => i < s@.len() && f.ensures((&s@[i as int],), true) && forall|j: int| 0 <= j < i ==> f.ensures((&#[trigger] s@[j],), false),
            None => forall|j: int| 0 <= j < s@.len() ==> f.ensures((&#[trigger] s@[j],), false),
        }
    { s.iter().position(f) }

    // std::str::from_utf8: succeeds exactly on valid UTF-8 and then denotes the same bytes
    #[verifier::opaque]
    pub open spec fn valid_utf8(b: Seq<u8>) -> bool { vstd::utf8::valid_utf8(b) }
    /// the length of the longest prefix that is valid UTF-8 (what `Utf8Error::valid_up_to` documents)
    pub open spec fn utf8_valid_up_to(b: Seq<u8>) -> int
        decreases b.len()
    {
        if b.len() == 0 || valid_utf8(b) { b.len() as int } else { utf8_valid_up_to(b.drop_last()) }
    }
    /// invalid only because the input ends inside a character: some continuation makes it valid
    /// (what `Utf8Error::error_len() == None` documents: "the end of the input was reached unexpectedly")
    pub open spec fn utf8_truncated(b: Seq<u8>) -> bool {
        !valid_utf8(b) && exists|t: Seq<u8>| valid_utf8(b + t)
    }
    pub uninterp spec fn utf8_err_valid_up_to(e: std::str::Utf8Error) -> usize;
    pub uninterp spec fn utf8_err_len_none(e: std::str::Utf8Error) -> bool;
    // ASSUMED (std documentation of from_utf8 / Utf8Error): the error names the longest valid prefix and tells
    // whether the input merely ends inside a character
    pub assume_specification<'a>[ std::str::from_utf8 ](b: &'a [u8]) -> (r: Result<&'a str, std::str::Utf8Error>)
        ensures r is Ok == valid_utf8(b@), r matches Ok(s) ==> sb(s) == b@,
            r matches Err(e) ==> utf8_err_valid_up_to(e) as int == utf8_valid_up_to(b@) && utf8_err_len_none(e) == utf8_truncated(b@);
    pub assume_specification[ std::str::Utf8Error::error_len ](e: &std::str::Utf8Error) -> (r: Option<usize>)
        ensures r is None == utf8_err_len_none(*e);
    pub assume_specification[ std::str::Utf8Error::valid_up_to ](e: &std::str::Utf8Error) -> (r: usize)
        ensures r == utf8_err_valid_up_to(*e);
    /// PROVED: the longest valid prefix is a valid prefix
    pub proof fn lemma_utf8_valid_up_to(b: Seq<u8>)
        ensures 0 <= utf8_valid_up_to(b) <= b.len(), valid_utf8(b.subrange(0, utf8_valid_up_to(b))),
            !valid_utf8(b) ==> utf8_valid_up_to(b) < b.len()
        decreases b.len()
    {
        if b.len() == 0 {
            assert(b.subrange(0, 0) =~= b);
            reveal(valid_utf8);
            assert(b =~= Seq::<u8>::empty());
            vstd::utf8::encode_utf8_valid_utf8(Seq::<char>::empty());
            assert(vstd::utf8::encode_utf8(Seq::<char>::empty()) =~= Seq::<u8>::empty()) by { reveal_with_fuel(vstd::utf8::encode_utf8, 1); }
        } else if valid_utf8(b) {
            assert(b.subrange(0, b.len() as int) =~= b);
        } else {
            lemma_utf8_valid_up_to(b.drop_last());
            let v = utf8_valid_up_to(b.drop_last());
            assert(b.drop_last().subrange(0, v) =~= b.subrange(0, v));
        }
    }
    // every &str holds valid UTF-8
    /// PROVED: a &str is the encoding of its chars (vstd), and encodings are valid UTF-8
    pub broadcast proof fn lemma_str_valid_utf8(a: &str)
        ensures valid_utf8(#[trigger] sb(a)), vstd::utf8::valid_utf8(sb(a))
    {
        reveal(valid_utf8);
        vstd::utf8::encode_utf8_valid_utf8(a@);
    }

    // R13: the split iterator of v1::parse_line.  `Parts::new(h, n)` is
    // `h.splitn(n, |c| c == ' ' || c == '\r').peekable()`; its remaining items are modelled by `rem()`.
    #[verifier::external_body]
    pub struct Parts<'a>(std::iter::Peekable<std::str::SplitN<'a, fn(char) -> bool>>);

    #[verifier::external]
    fn parts_is_sep(c: char) -> bool { c == ' ' || c == '\r' }

    impl<'a> Parts<'a> {
        /// all the pieces of the split, and how many of them have been consumed
        pub uninterp spec fn all(&self) -> Seq<Seq<u8>>;
        pub uninterp spec fn pos(&self) -> int;

        /// `header.splitn(n, |c| c == sep1 || c == sep2).peekable()`; the model (splitn_spec) is the one for
        /// the separators SP and CR, so the two characters the code passes are REQUIRED to be those
        #[verifier::external_body]
        pub fn new(header: &'a str, n: usize, sep1: char, sep2: char) -> (r: Self)
            requires sep1 as u32 == 32u32, sep2 as u32 == 13u32,
            ensures r.all() == crate::spec::splitn_spec(sb(header), n as nat), r.pos() == 0
        { Parts(header.splitn(n, parts_is_sep as fn(char) -> bool).peekable()) }

        #[verifier::external_body]
        pub fn next(&mut self) -> (r: Option<&'a str>)
            ensures
                final(self).all() == old(self).all(),
                0 <= old(self).pos() <= old(self).all().len(),
                match r {
                    None => old(self).pos() == old(self).all().len() && final(self).pos() == old(self).pos(),
                    Some(s) => old(self).pos() < old(self).all().len() && sb(s) == old(self).all()[old(self).pos()]
                        && final(self).pos() == old(self).pos() + 1,
                }
        { self.0.next() }

        #[verifier::external_body]
        pub fn peek(&mut self) -> (r: Option<&&'a str>)
            ensures final(self).all() == old(self).all(), final(self).pos() == old(self).pos(),
                0 <= old(self).pos() <= old(self).all().len(),
                r is None == (old(self).pos() == old(self).all().len())
        { self.0.peek() }
    }

    pub broadcast group prelude_axioms {
        axiom_v4_octets_len, axiom_v6_octets_len, axiom_v4_ext, axiom_v6_ext,
        axiom_cow_as_ref_bytes, axiom_cow_deref_bytes, lemma_bitor_comm_u8,
    }
    pub broadcast group prelude_str_axioms {
        lemma_str_ext_bytes, axiom_str_ext_chars, axiom_str_len_bound, axiom_pat_starts_str, axiom_pat_ends_str,
        axiom_pat_starts_char, axiom_pat_find_char, axiom_cow_deref_str, axiom_cow_as_ref_str, lemma_first_index_bounds, lemma_first_index_prefix,
        lemma_u16_parse_empty, axiom_slice_len_bound,
    }
    pub broadcast group prelude_parse_axioms {
        axiom_ipv4_text_no_sep, axiom_ipv6_text_no_sep, axiom_u16_text,
    }
    pub broadcast group prelude_display_axioms {
        axiom_display_ipv4, axiom_display_ipv6, lemma_display_u16,
    }
    pub broadcast group prelude_utf8_axioms {
        lemma_boundary_ascii, lemma_boundary_after_ascii, lemma_boundary_ends, lemma_cow_str_valid, lemma_str_valid_utf8,
    }
    }
}
