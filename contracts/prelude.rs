// Assumed specifications for std items used by ppp. EVERYTHING in this file is an
// assumption (trusted base); every entry is listed in the evidence of each check.
pub mod prelude {
    use vstd::prelude::*;
    use std::net::{Ipv4Addr, Ipv6Addr};
    verus! {

    // ---- external types -------------------------------------------------------------
    #[verifier::external_type_specification]
    #[verifier::external_body]
    pub struct ExIpv4Addr(std::net::Ipv4Addr);

    #[verifier::external_type_specification]
    #[verifier::external_body]
    pub struct ExIpv6Addr(std::net::Ipv6Addr);

    #[verifier::external_type_specification]
    #[verifier::external_body]
    pub struct ExAddrParseError(std::net::AddrParseError);

    #[verifier::external_type_specification]
    #[verifier::external_body]
    pub struct ExParseIntError(std::num::ParseIntError);

    #[verifier::external_type_specification]
    #[verifier::external_body]
    pub struct ExUtf8Error(std::str::Utf8Error);

    #[verifier::external_type_specification]
    #[verifier::external_body]
    pub struct ExIoError(std::io::Error);

    #[verifier::external_type_specification]
    pub struct ExIoErrorKind(std::io::ErrorKind);

    #[verifier::external_type_specification]
    pub struct ExSocketAddr(std::net::SocketAddr);

    #[verifier::external_type_specification]
    #[verifier::external_body]
    pub struct ExSocketAddrV4(std::net::SocketAddrV4);

    #[verifier::external_type_specification]
    #[verifier::external_body]
    pub struct ExSocketAddrV6(std::net::SocketAddrV6);

    // a socket address is modelled by its IP and port (flow-info / scope of V6 are not
    // observable through ip() / port(), which is all ppp uses)
    pub uninterp spec fn sa4_ip(a: std::net::SocketAddrV4) -> Ipv4Addr;
    pub uninterp spec fn sa4_port(a: std::net::SocketAddrV4) -> u16;
    pub uninterp spec fn sa6_ip(a: std::net::SocketAddrV6) -> Ipv6Addr;
    pub uninterp spec fn sa6_port(a: std::net::SocketAddrV6) -> u16;

    pub assume_specification[ std::net::SocketAddrV4::ip ](s: &std::net::SocketAddrV4) -> (r: &Ipv4Addr)
        ensures *r == sa4_ip(*s);
    pub assume_specification[ std::net::SocketAddrV4::port ](s: &std::net::SocketAddrV4) -> (r: u16)
        ensures r == sa4_port(*s);
    pub assume_specification[ std::net::SocketAddrV6::ip ](s: &std::net::SocketAddrV6) -> (r: &Ipv6Addr)
        ensures *r == sa6_ip(*s);
    pub assume_specification[ std::net::SocketAddrV6::port ](s: &std::net::SocketAddrV6) -> (r: u16)
        ensures r == sa6_port(*s);

    // abstract views: the 4 / 16 octets in network order
    pub uninterp spec fn v4_octets(a: Ipv4Addr) -> Seq<u8>;
    pub uninterp spec fn v6_octets(a: Ipv6Addr) -> Seq<u8>;

    #[verifier::external_body]
    pub broadcast proof fn axiom_v4_octets_len(a: Ipv4Addr)
        ensures #[trigger] v4_octets(a).len() == 4
    {}
    #[verifier::external_body]
    pub broadcast proof fn axiom_v6_octets_len(a: Ipv6Addr)
        ensures #[trigger] v6_octets(a).len() == 16
    {}
    // an address is determined by its octets (Ipv4Addr/Ipv6Addr are plain octet arrays)
    #[verifier::external_body]
    pub broadcast proof fn axiom_v4_ext(a: Ipv4Addr, b: Ipv4Addr)
        ensures #[trigger] v4_octets(a) == #[trigger] v4_octets(b) ==> a == b
    {}
    #[verifier::external_body]
    pub broadcast proof fn axiom_v6_ext(a: Ipv6Addr, b: Ipv6Addr)
        ensures #[trigger] v6_octets(a) == #[trigger] v6_octets(b) ==> a == b
    {}

    pub assume_specification[ Ipv4Addr::new ](a: u8, b: u8, c: u8, d: u8) -> (r: Ipv4Addr)
        ensures v4_octets(r) == seq![a, b, c, d];

    pub assume_specification[ Ipv4Addr::octets ](s: &Ipv4Addr) -> (r: [u8; 4])
        ensures r@ == v4_octets(*s);

    pub assume_specification[ Ipv6Addr::octets ](s: &Ipv6Addr) -> (r: [u8; 16])
        ensures r@ == v6_octets(*s);

    pub assume_specification[ <Ipv6Addr as From<[u8; 16]>>::from ](a: [u8; 16]) -> (r: Ipv6Addr)
        ensures v6_octets(r) == a@;

    // ---- big-endian helpers (R3) ----------------------------------------------------
    pub open spec fn be16(a: u8, b: u8) -> int { (a as int) * 256 + (b as int) }

    #[verifier::external_body]
    pub fn u16_from_be_bytes(b: [u8; 2]) -> (r: u16)
        ensures r as int == be16(b[0], b[1])
    { u16::from_be_bytes(b) }

    #[verifier::external_body]
    pub fn u16_to_be_bytes(x: u16) -> (r: [u8; 2])
        ensures r[0] as int == (x as int) / 256, r[1] as int == (x as int) % 256, r@ == be_int(x as int, 2)
    { x.to_be_bytes() }

    // integer `to_be_bytes` for the twelve WriteToHeader instances: big-endian two's complement
    // at the natural width (usize/isize: 64-bit target); cross-checked by complete Kani harnesses
    /// big-endian encoding of the natural number `v` on `n` bytes (v < 256^n)
    pub open spec fn be_nat(v: nat, n: nat) -> Seq<u8>
        decreases n
    {
        if n == 0 { Seq::empty() } else { be_nat(v / 256, (n - 1) as nat).push((v % 256) as u8) }
    }

    pub open spec fn pow256(n: nat) -> nat
        decreases n
    { if n == 0 { 1 } else { 256 * pow256((n - 1) as nat) } }

    /// two's-complement big-endian encoding of the integer `x` on `n` bytes
    pub open spec fn be_int(x: int, n: nat) -> Seq<u8> {
        if x >= 0 { be_nat(x as nat, n) } else { be_nat((x + pow256(n)) as nat, n) }
    }


    #[verifier::external_body]
    pub fn u8_to_be_bytes(x: u8) -> (r: [u8; 1])
        ensures r@ == be_int(x as int, 1)
    { x.to_be_bytes() }
    #[verifier::external_body]
    pub fn u32_to_be_bytes(x: u32) -> (r: [u8; 4])
        ensures r@ == be_int(x as int, 4)
    { x.to_be_bytes() }
    #[verifier::external_body]
    pub fn u64_to_be_bytes(x: u64) -> (r: [u8; 8])
        ensures r@ == be_int(x as int, 8)
    { x.to_be_bytes() }
    #[verifier::external_body]
    pub fn u128_to_be_bytes(x: u128) -> (r: [u8; 16])
        ensures r@ == be_int(x as int, 16)
    { x.to_be_bytes() }
    #[verifier::external_body]
    pub fn usize_to_be_bytes(x: usize) -> (r: [u8; 8])
        ensures r@ == be_int(x as int, 8)
    { x.to_be_bytes() }
    #[verifier::external_body]
    pub fn i8_to_be_bytes(x: i8) -> (r: [u8; 1])
        ensures r@ == be_int(x as int, 1)
    { x.to_be_bytes() }
    #[verifier::external_body]
    pub fn i16_to_be_bytes(x: i16) -> (r: [u8; 2])
        ensures r@ == be_int(x as int, 2)
    { x.to_be_bytes() }
    #[verifier::external_body]
    pub fn i32_to_be_bytes(x: i32) -> (r: [u8; 4])
        ensures r@ == be_int(x as int, 4)
    { x.to_be_bytes() }
    #[verifier::external_body]
    pub fn i64_to_be_bytes(x: i64) -> (r: [u8; 8])
        ensures r@ == be_int(x as int, 8)
    { x.to_be_bytes() }
    #[verifier::external_body]
    pub fn i128_to_be_bytes(x: i128) -> (r: [u8; 16])
        ensures r@ == be_int(x as int, 16)
    { x.to_be_bytes() }
    #[verifier::external_body]
    pub fn isize_to_be_bytes(x: isize) -> (r: [u8; 8])
        ensures r@ == be_int(x as int, 8)
    { x.to_be_bytes() }

    // R10: `v[a..b].copy_from_slice(src)` on a Vec (this Verus has no usable spec for a mutable
    // sub-range borrow of a Vec): replaces exactly that range; panics unless the lengths agree
    #[verifier::external_body]
    pub fn vec_copy_range(v: &mut Vec<u8>, a: usize, b: usize, src: &[u8])
        requires a <= b <= old(v)@.len(), b - a == src@.len(),
        ensures final(v)@ =~= old(v)@.subrange(0, a as int) + src@ + old(v)@.subrange(b as int, old(v)@.len() as int)
    { v[a..b].copy_from_slice(src) }

    // R12: iteration protocol for generic iterators.  Assumption: an `IntoIterator` argument
    // denotes a finite sequence of items (`into_seq`), delivered in order by `next`.
    pub uninterp spec fn into_seq<II: IntoIterator>(x: II) -> Seq<II::Item>;
    pub uninterp spec fn iter_remaining<I: Iterator>(it: I) -> Seq<I::Item>;

    #[verifier::external_body]
    pub fn iter_begin<II: IntoIterator>(x: II) -> (r: II::IntoIter)
        ensures iter_remaining(r) == into_seq(x)
    { x.into_iter() }

    #[verifier::external_body]
    pub fn iter_next<I: Iterator>(it: &mut I) -> (r: Option<I::Item>)
        ensures
            match r {
                None => iter_remaining(*old(it)).len() == 0 && iter_remaining(*final(it)).len() == 0,
                Some(x) => iter_remaining(*old(it)).len() > 0 && x == iter_remaining(*old(it))[0]
                    && iter_remaining(*final(it)) == iter_remaining(*old(it)).subrange(1, iter_remaining(*old(it)).len() as int),
            }
    { it.next() }

    // R9: std::cmp::min, used by ppp on usize only
    #[verifier::external_body]
    pub fn usize_min(a: usize, b: usize) -> (r: usize)
        ensures r == (if a <= b { a } else { b })
    { std::cmp::min(a, b) }

    // ---- Cow / slice / Vec helpers ----------------------------------------------------
    pub assume_specification<T: Clone>[ <[T]>::to_vec ](s: &[T]) -> (r: Vec<T>)
        ensures r@ == s@;

    pub assume_specification<'b, T>[ <[T] as AsRef<[T]>>::as_ref ](s: &'b [T]) -> (r: &'b [T])
        ensures r@ == s@;

    // the reflexive conversion `impl<T> From<T> for T` is the identity; `impl<T> From<T> for Option<T>` is `Some`
    pub assume_specification<T>[ <T as From<T>>::from ](a: T) -> (r: T)
        ensures r == a;
    pub assume_specification<T>[ <Option<T> as From<T>>::from ](a: T) -> (r: Option<T>)
        ensures r == Some(a);

    pub assume_specification<'a, T: Clone>[ <std::borrow::Cow<'a, [T]> as From<&'a [T]>>::from ](s: &'a [T]) -> (r: std::borrow::Cow<'a, [T]>)
        ensures r == std::borrow::Cow::<'a, [T]>::Borrowed(s);

    // Deref of a Cow yields the viewed contents
    pub uninterp spec fn cow_deref_spec<'a, 'b, B: ?Sized + ToOwned>(c: &'b std::borrow::Cow<'a, B>) -> &'b B;
    pub assume_specification<'a, 'b, B: ?Sized + ToOwned>[ <std::borrow::Cow<'a, B> as std::ops::Deref>::deref ](c: &'b std::borrow::Cow<'a, B>) -> (r: &'b B)
        ensures r == cow_deref_spec(c);
    #[verifier::external_body]
    pub broadcast proof fn axiom_cow_deref_bytes<'a, 'b>(c: &'b std::borrow::Cow<'a, [u8]>)
        ensures (#[trigger] cow_deref_spec::<[u8]>(c))@ == c@
    {}

    pub broadcast proof fn lemma_bitor_comm_u8(a: u8, b: u8)
        ensures #[trigger] (a | b) == b | a
    { assert((a | b) == b | a) by(bit_vector); }

    pub uninterp spec fn cow_as_ref_spec<'a, 'b, T: ?Sized + ToOwned>(c: &'b std::borrow::Cow<'a, T>) -> &'b T;

    pub assume_specification<'a, 'b, T: ?Sized + ToOwned>[ <std::borrow::Cow<'a, T> as AsRef<T>>::as_ref ](c: &'b std::borrow::Cow<'a, T>) -> (r: &'b T)
        ensures r == cow_as_ref_spec(c);

    #[verifier::external_body]
    pub broadcast proof fn axiom_cow_as_ref_bytes<'a, 'b>(c: &'b std::borrow::Cow<'a, [u8]>)
        ensures (#[trigger] cow_as_ref_spec::<[u8]>(c))@ == c@
    {}

    pub broadcast group prelude_axioms {
        axiom_v4_octets_len, axiom_v6_octets_len, axiom_v4_ext, axiom_v6_ext, axiom_cow_as_ref_bytes, axiom_cow_deref_bytes, lemma_bitor_comm_u8,
    }
    }
}
