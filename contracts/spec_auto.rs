// ======================================================================================
// C06: version auto-detection, stated over the contracts of the two dedicated parsers.
// ======================================================================================

/// everything the contract of v2::Header::try_from says about its result
pub open spec fn v2_all_post(s: Seq<u8>, y: Result<V2Header, V2Error>) -> bool {
    c02_post(s, y) && c05_v2_post(s, y) && c12_v2_post(s, y) && c17_post(s, y) && c17_controls_post(s, y) && v2_func_post(s, y)
}
/// everything the contract of v1::Header::try_from(&[u8]) says about its result
pub open spec fn v1_bytes_post(b: Seq<u8>, x: Result<V1Header, V1BinError>) -> bool {
    (x is Ok <==> entry_verdict_bytes(b) matches V1BV::Line(V1V::Accept(_)))
    && (x is Ok ==> bin_realises(v1_window(b), x, entry_verdict_bytes(b)))
    && (v1_bin_res_incomplete(x) <==> v1bv_incomplete(entry_verdict_bytes(b)))
    && (x is Err ==> bin_realises(v1_window(b), x, entry_verdict_bytes(b)))
}

/// [C06] the auto-detecting parser returns the v2 parser's result unless that is a terminal
/// error, in which case it returns the v1 parser's result
pub open spec fn c06_post(s: Seq<u8>, r: crate::HeaderResult) -> bool {
    if v2_class(s) == 2 { r matches crate::HeaderResult::V1(x) && v1_bytes_post(s, x) }
    else { r matches crate::HeaderResult::V2(y) && v2_all_post(s, y) }
}
