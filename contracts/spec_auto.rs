// ======================================================================================
// C06: version auto-detection, stated over the contracts of the two dedicated parsers.
// ======================================================================================

/// everything the contract of v2::Header::try_from says about its result
pub open spec fn v2_all_post(s: Seq<u8>, y: Result<V2Header, V2Error>) -> bool {
    c02_post(s, y) && c05_v2_post(s, y) && c12_v2_post(s, y) && c17_post(s, y) && c17_controls_post(s, y) && v2_func_post(s, y)
}
/// everything the contract of v1::Header::try_from(&[u8]) says about its result
pub open spec fn v1_bytes_post(b: Seq<u8>, x: Result<V1Header, V1BinError>) -> bool {
    (x is Ok <==> entry_verdict_bytes(b) matches V1BV::Line(V1V::Accept(_)))
    && (x is Ok ==> bin_realises(v1_window(b), x, entry_verdict_bytes(b)))
    && (v1_bin_res_incomplete(x) <==> v1bv_incomplete(entry_verdict_bytes(b)))
    && (x is Err ==> bin_realises(v1_window(b), x, entry_verdict_bytes(b)))
}

/// [C06] the auto-detecting parser returns the v2 parser's result unless that is a terminal
/// error, in which case it returns the v1 parser's result
pub open spec fn c06_post(s: Seq<u8>, r: crate::HeaderResult) -> bool {
    if v2_class(s) == 2 { r matches crate::HeaderResult::V1(x) && v1_bytes_post(s, x) }
    else { r matches crate::HeaderResult::V2(y) && v2_all_post(s, y) }
}

/// [C06] the statement itself: accepted exactly when one of the two parsers accepts (a v1 line starts with `P`, a v2
/// header with CR: never both), that parser's header returned unchanged under its version tag; incomplete exactly
/// when v2 is incomplete, or v2 fails terminally and v1 is incomplete; otherwise a terminal error (of either parser:
/// WHICH error is reported when both fail terminally is not pinned); a possible v2 header is never handed to the text parser
pub open spec fn c06_statement(s: Seq<u8>, r: crate::HeaderResult) -> bool {
    let racc = match r { crate::HeaderResult::V1(x) => x is Ok, crate::HeaderResult::V2(y) => y is Ok };
    let rinc = match r { crate::HeaderResult::V1(x) => v1_bin_res_incomplete(x), crate::HeaderResult::V2(y) => v2_res_incomplete(y) };
    let v1acc = entry_verdict_bytes(s) matches V1BV::Line(V1V::Accept(_));
    &&& (v2_class(s) == 0 ==> (r matches crate::HeaderResult::V2(y) && y is Ok && c02_post(s, y)))
    &&& (v2_class(s) == 2 && v1acc ==> (r matches crate::HeaderResult::V1(x) && x is Ok && bin_realises(v1_window(s), x, entry_verdict_bytes(s))))
    &&& (racc ==> v2_class(s) == 0 || (v2_class(s) == 2 && v1acc))
    &&& (rinc <==> (v2_class(s) == 1 || (v2_class(s) == 2 && v1bv_incomplete(entry_verdict_bytes(s)))))
    &&& (v2_class(s) == 1 ==> r is V2)
}
