// ======================================================================================
// C19: constructors and socket-address conversions keep every endpoint in its role.
// ======================================================================================
pub use std::net::SocketAddr;

pub open spec fn v2_from_sockets_spec(s: SocketAddr, d: SocketAddr) -> crate::v2::Addresses {
    match (s, d) {
        (SocketAddr::V4(a), SocketAddr::V4(b)) => crate::v2::Addresses::IPv4(crate::ip::IPv4 {
            source_address: sa4_ip(a), source_port: sa4_port(a),
            destination_address: sa4_ip(b), destination_port: sa4_port(b) }),
        (SocketAddr::V6(a), SocketAddr::V6(b)) => crate::v2::Addresses::IPv6(crate::ip::IPv6 {
            source_address: sa6_ip(a), source_port: sa6_port(a),
            destination_address: sa6_ip(b), destination_port: sa6_port(b) }),
        _ => crate::v2::Addresses::Unspecified,
    }
}

pub open spec fn v1_from_sockets_spec(s: SocketAddr, d: SocketAddr) -> crate::v1::Addresses {
    match (s, d) {
        (SocketAddr::V4(a), SocketAddr::V4(b)) => crate::v1::Addresses::Tcp4(crate::ip::IPv4 {
            source_address: sa4_ip(a), source_port: sa4_port(a),
            destination_address: sa4_ip(b), destination_port: sa4_port(b) }),
        (SocketAddr::V6(a), SocketAddr::V6(b)) => crate::v1::Addresses::Tcp6(crate::ip::IPv6 {
            source_address: sa6_ip(a), source_port: sa6_port(a),
            destination_address: sa6_ip(b), destination_port: sa6_port(b) }),
        _ => crate::v1::Addresses::Unknown,
    }
}
