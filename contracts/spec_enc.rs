// ======================================================================================
// Wire encodings (C07, C13, C20) and the builder's abstract state machine (C09, C10).
// ======================================================================================

pub open spec fn be16_bytes(x: int) -> Seq<u8> { seq![(x / 256) as u8, (x % 256) as u8] }

/// the writer refuses to grow once it holds more than a full-size header
pub open spec fn writer_limit() -> int { 65551int }

/// `Writer::write` / `write_all` of one chunk (empty chunks are not even attempted by write_all)
pub open spec fn write_all_post(old: Seq<u8>, buf: Seq<u8>, ok: bool, new: Seq<u8>) -> bool {
    if buf.len() == 0 { ok && new == old }
    else if old.len() > writer_limit() { !ok && new == old }
    else { ok && new == old + buf }
}

/// [C20] contract of `WriteToHeader::write_to` in terms of the value's wire encoding `enc`
/// and whether it is encodable at all (its 16-bit length field can hold its size)
pub open spec fn write_to_post(enc: Seq<u8>, encodable: bool, old: Seq<u8>, r: Result<usize, std::io::Error>, new: Seq<u8>) -> bool {
    // success means: exactly the encoding was appended and its size is returned
    (r matches Ok(n) ==> encodable && n as int == enc.len() && new =~= old + enc)
    // a value too large for its length field is refused without writing anything
    && (!encodable ==> r is Err && new =~= old)
    // an encodable value written into a writer that stays within a full-size header succeeds
    && (encodable && old.len() + enc.len() <= writer_limit() ==> r is Ok)
    // append-only in every case
    && old.len() <= new.len() && new.subrange(0, old.len() as int) =~= old
}

// ---- encodings of the model types --------------------------------------------------------
pub open spec fn v2_addr_enc(a: V2Addresses) -> Seq<u8> {
    match a {
        V2Addresses::Unspecified => Seq::empty(),
        V2Addresses::IPv4(x) => v4_octets(x.source_address) + v4_octets(x.destination_address)
            + be16_bytes(x.source_port as int) + be16_bytes(x.destination_port as int),
        V2Addresses::IPv6(x) => v6_octets(x.source_address) + v6_octets(x.destination_address)
            + be16_bytes(x.source_port as int) + be16_bytes(x.destination_port as int),
        V2Addresses::Unix(x) => x.source@ + x.destination@,
    }
}

pub open spec fn tlv_enc(kind: u8, value: Seq<u8>) -> Seq<u8> {
    seq![kind] + be16_bytes(value.len() as int) + value
}

// ---- the builder as a state machine --------------------------------------------------------
pub struct BState {
    pub buf: Option<Seq<u8>>,
    pub vc: u8,
    pub afp: u8,
    pub addr: V2Addresses,
    pub length: Option<u16>,
}

pub open spec fn b_fixed(st: BState) -> Seq<u8> {
    v2_sig() + seq![st.vc, st.afp] + be16_bytes(match st.length { Some(l) => l as int, None => 0 })
}

/// first use writes the fixed part and the construction-time address block
pub open spec fn b_started(st: BState) -> BState {
    if st.buf is Some { st } else { BState { buf: Some(b_fixed(st) + v2_addr_enc(st.addr)), ..st } }
}

pub open spec fn b_write(st: BState, enc: Seq<u8>) -> BState {
    let s = b_started(st);
    BState { buf: Some(s.buf->Some_0 + enc), ..s }
}

pub open spec fn b_wf(st: BState) -> bool {
    st.buf matches Some(b) ==> b.len() >= 16
}

/// the length field a successful build must carry (C09)
pub open spec fn b_len_field(st: BState) -> int {
    match st.length { Some(l) => l as int, None => b_started(st).buf->Some_0.len() - 16 }
}

/// `v` is the started buffer with at most the two length bytes replaced (C10)
pub open spec fn b_same_except_len(buf: Seq<u8>, v: Seq<u8>) -> bool {
    v.len() == buf.len()
    && (forall|i: int| 0 <= i < v.len() && i != 14 && i != 15 ==> v[i] == buf[i])
}

/// component-wise (extensional) equality of builder states
pub open spec fn b_eq(a: BState, b: BState) -> bool {
    a.buf =~~= b.buf && a.vc == b.vc && a.afp == b.afp && a.addr == b.addr && a.length == b.length
}
