// ======================================================================================
// v1 / auto-detection: the remaining multi-call properties, derived from the verdict function
// that the entry points are proved to realise.
// ======================================================================================

pub proof fn lemma_first_index_append(s: Seq<u8>, t: Seq<u8>, c: u8)
    requires first_index_of(s, c) < s.len()
    ensures first_index_of(s + t, c) == first_index_of(s, c)
{
    broadcast use crate::prelude::prelude_str_axioms;
    let st = s + t;
    assert(st.subrange(0, s.len() as int) =~= s);
    lemma_first_index_prefix(st, s.len() as int, c);
    lemma_first_index_bounds(st, c);
}

// [props: C01 C04 C05 C06 C08 C12 C16 C18]
/// a text without CR is its own window and is never accepted; neither is any prefix of it
pub proof fn lemma_no_cr_prefix(b: Seq<u8>, v: int)
    requires first_index_of(b, 13u8) >= b.len(), 0 <= v <= b.len()
    ensures v1_window(b) =~= b, v1_window(b.subrange(0, v)) =~= b.subrange(0, v),
        first_index_of(b.subrange(0, v), 13u8) >= v, !(header_verdict(b.subrange(0, v)) is Accept),
        !v1_terminated(b.subrange(0, v)), !v1_terminated(b),
{
    broadcast use crate::prelude::prelude_str_axioms;
    lemma_first_index_bounds(b, 13u8);
    let p = b.subrange(0, v);
    lemma_first_index_prefix(b, v, 13u8);
    lemma_first_index_bounds(p, 13u8);
    assert(v1_window(p) =~= p);
    if header_verdict(p) is Accept {
        lemma_window_accept_w(p);
    }
}

/// an accepted window ends with its first CR followed by LF
pub proof fn lemma_window_accept_w(s: Seq<u8>)
    requires header_verdict(v1_window(s)) is Accept
    ensures v1_terminated(s)
{
    broadcast use crate::prelude::prelude_str_axioms;
    let w = v1_window(s);
    lemma_first_index_bounds(s, 13u8);
    lemma_accept_shape(w);
    let n = w.len() as int;
    assert(w[n - 2] == 13u8) by { assert(w.subrange(n - 2, n)[0] == 13u8); }
    let cr = first_index_of(s, 13u8);
    if cr >= s.len() {
        assert(w =~= s);
        assert(s[n - 2] == 13u8);
    } else if cr + 2 > s.len() {
        assert(w =~= s);
        assert(cr == s.len() - 1);
        assert(s[n - 2] != 13u8);
    }
}

// [props: C01 C04 C05 C06 C08 C12 C16 C18]
/// the byte entry point accepts only through its window (never through the cut-character branch, which examines a
/// text without CR)
pub proof fn lemma_bytes_accept_window(s: Seq<u8>)
    requires entry_verdict_bytes(s) matches V1BV::Line(V1V::Accept(_))
    ensures valid_utf8(v1_window(s)), entry_verdict_bytes(s) == V1BV::Line(header_verdict(v1_window(s))),
        header_verdict(v1_window(s)) is Accept
{
    if !valid_utf8(v1_window(s)) {
        lemma_utf8_valid_up_to(s);
        lemma_no_cr_prefix(s, utf8_valid_up_to(s));
    }
}

// [props: C04]
/// an accepted text input followed by any further bytes, and the reported header text on its own,
/// have the same window and therefore the same verdict; the header length is the window length
pub proof fn lemma_c04_v1(s: Seq<u8>, t: Seq<u8>)
    requires entry_verdict_str(s) is Accept, vstd::utf8::valid_utf8(s + t), vstd::utf8::valid_utf8(v1_window(s))
    ensures
        v1_window(s + t) =~= v1_window(s),
        entry_verdict_str(s + t) == entry_verdict_str(s),
        v1_window(v1_window(s)) =~= v1_window(s),
        entry_verdict_str(v1_window(s)) == entry_verdict_str(s),
{
    broadcast use crate::prelude::prelude_str_axioms;
    broadcast use crate::prelude::prelude_utf8_axioms;
    lemma_accept_is_terminated(s);
    let w = v1_window(s);
    let n = w.len() as int;
    lemma_first_index_bounds(s, 13u8);
    lemma_first_index_append(s, t, 13u8);
    assert((s + t).subrange(0, n) =~= w);
    lemma_accept_shape(w);
    assert(w[n - 1] == 10u8) by { assert(w.subrange(n - 2, n)[1] == 10u8); }
    // cut after the ASCII LF: a character boundary in s + t and in w itself
    assert((s + t)[n - 1] == 10u8);
    assert(str_cut_ok(s + t, n));
    lemma_first_index_bounds(w, 13u8);
    assert(w.subrange(0, n) =~= w);
    assert(str_cut_ok(w, n));
}

// [props: C18]
/// once the first CR is followed by a byte, or 107 bytes arrived without a CR, the verdict of
/// the text entry point is final
pub proof fn lemma_c18_v1(s: Seq<u8>)
    requires c18_condition(s)
    ensures !v1v_incomplete(entry_verdict_str(s))
{
    broadcast use crate::prelude::prelude_str_axioms;
    lemma_first_index_bounds(s, 13u8);
    if v1_terminated(s) {
        let w = v1_window(s);
        lemma_first_index_prefix(s, w.len() as int, 13u8);
        assert(v1_terminated(w));
    }
}

// [props: C16]
/// for a valid UTF-8 input whose window ends on a character boundary the two entry points
/// have the same verdict; when it ends inside a character both reject terminally
pub proof fn lemma_c16_entries_agree(s: Seq<u8>)
    requires vstd::utf8::valid_utf8(s),
    ensures
        str_cut_ok(s, v1_window(s).len() as int) ==> entry_verdict_bytes(s) == V1BV::Line(entry_verdict_str(s)),
        !str_cut_ok(s, v1_window(s).len() as int) ==>
            (entry_verdict_bytes(s) is InvalidUtf8 || entry_verdict_bytes(s) == V1BV::Line(V1V::Reject(V1K::HeaderTooLong)))
            && (entry_verdict_str(s) matches V1V::Reject(k) && !v1k_incomplete(k)),
{
    // a prefix of valid UTF-8 is valid exactly when it ends on a character boundary (proved in the prelude)
    broadcast use crate::prelude::prelude_str_axioms;
    lemma_first_index_bounds(s, 13u8);
    let n = v1_window(s).len() as int;
    lemma_utf8_prefix_iff_boundary(s, n);
    assert(valid_utf8(v1_window(s)) == str_cut_ok(s, n)) by { reveal(valid_utf8); };
    if first_index_of(s, 13u8) >= s.len() {
        assert(v1_window(s) =~= s);
        assert(valid_utf8(v1_window(s))) by { reveal(valid_utf8); };
    }
}

// [props: C06]
/// the auto-detecting parser never accepts through both versions: a v1 line starts with `P`,
/// for which the v2 parser's verdict is a terminal error, and a v2 verdict that is not a
/// terminal error is returned as it is
pub proof fn lemma_c06_exclusive(s: Seq<u8>)
    requires entry_verdict_bytes(s) matches V1BV::Line(V1V::Accept(_))
    ensures v2_class(s) == 2
{
    broadcast use crate::prelude::prelude_str_axioms;
    lemma_bytes_accept_window(s);
    let w = v1_window(s);
    lemma_accept_shape(w);
    assert(w.subrange(0, 5)[0] == 80u8);
    assert(s[0] == 80u8);
    // the v2 signature starts with CR
    if s.len() < 12 {
        assert(v2_sig().subrange(0, s.len() as int)[0] == 13u8);
    } else {
        assert(s.subrange(0, 12)[0] == s[0]);
        assert(v2_sig()[0] == 13u8);
    }
}

// [props: C06]
/// what the auto-detecting parser reports, spelled out: the v2 result unless it is a terminal
/// error; accepted exactly when one of the two accepts; incomplete exactly when v2 is incomplete,
/// or v2 is terminal and v1 is incomplete
pub proof fn lemma_c06_statement(s: Seq<u8>, r: crate::HeaderResult)
    requires c06_post(s, r)
    ensures
        v2_class(s) != 2 ==> r is V2,
        v2_class(s) == 2 ==> r is V1,
        (r matches crate::HeaderResult::V2(y) && y is Ok) <==> v2_class(s) == 0,
        (r matches crate::HeaderResult::V1(x) && x is Ok) <==> (v2_class(s) == 2 && entry_verdict_bytes(s) matches V1BV::Line(V1V::Accept(_))),
        (r matches crate::HeaderResult::V2(y) && v2_res_incomplete(y)) <==> v2_class(s) == 1,
        (r matches crate::HeaderResult::V1(x) && v1_bin_res_incomplete(x)) <==> (v2_class(s) == 2 && v1bv_incomplete(entry_verdict_bytes(s))),
{
}

// [props: C15]
/// the views reassemble the header text: PROXY, a space, the protocol keyword, the separated
/// address text (a space and the text, when there is any) and CRLF
pub proof fn lemma_c15_reassemble(h: V1Header)
    requires v1_header_wf(h)
    ensures ({
        let s = cow_str_bytes(h.header);
        let p = v1_protocol_bytes(h.addresses);
        let t = v1_addresses_text(s, h.addresses);
        let k = 6 + p.len() as int;
        &&& (s[k] == 32u8 ==> s =~= b_proxy() + sp() + p + sp() + t + b_crlf())
        &&& (s[k] == 13u8 ==> t.len() == 0 && s =~= b_proxy() + sp() + p + b_crlf())
        &&& (s[k] == 32u8 || s[k] == 13u8)
    }),
{
    broadcast use crate::prelude::prelude_str_axioms;
    let s = cow_str_bytes(h.header);
    let p = v1_protocol_bytes(h.addresses);
    let n = s.len() as int;
    let k = 6 + p.len() as int;
    lemma_first_index_bounds(s, 13u8);
    assert(s[n - 2] == 13u8 && s[n - 1] == 10u8) by { assert(s.subrange(n - 2, n)[0] == 13u8 && s.subrange(n - 2, n)[1] == 10u8); }
    let mid = s.subrange(k, n - 2);
    assert forall|i: int| 0 <= i < 5 implies s[i] == b_proxy()[i] by { assert(s.subrange(0, 5)[i] == s[i]); }
    assert forall|i: int| 0 <= i < p.len() implies s[6 + i] == p[i] by { assert(s.subrange(6, k)[i] == s[6 + i]); }
    if s[k] == 13u8 {
        assert(k == n - 2);
        assert(mid.len() == 0);
        assert(s =~= b_proxy() + sp() + p + b_crlf());
    } else {
        assert(s[k] == 32u8);
        assert(mid[0] == 32u8);
        let t = mid.subrange(1, mid.len() as int);
        assert(s =~= b_proxy() + sp() + p + sp() + t + b_crlf());
    }
}

// [props: C08]
/// the canonical line of every address value is a well-formed line of at most 107 bytes (104 for
/// TCP6) that the text entry point accepts with exactly that value; hence distinct values never
/// share a line
#[verifier::rlimit(60)]
pub proof fn lemma_c08_roundtrip(a: V1Addresses)
    ensures
        v1_display(a).len() <= 107,
        wf_line(v1_display(a), a),
        line_verdict(v1_display(a)) == V1V::Accept(a),
{
    broadcast use crate::prelude::prelude_display_axioms;
    let l = v1_display(a);
    match a {
        V1Addresses::Unknown => {
            assert(unknown_line(l));
            lemma_unknown_line_accepted(l);
        },
        V1Addresses::Tcp4(x) => {
            let (sa, da, spt, dpt) = (display_ipv4(x.source_address), display_ipv4(x.destination_address), display_u16(x.source_port), display_u16(x.destination_port));
            assert(port_ok(spt) && port_ok(dpt));
            assert(ipv4_text(sa) == Some(x.source_address) && ipv4_text(da) == Some(x.destination_address));
            assert(l.len() == 5 + 1 + 4 + 1 + sa.len() + 1 + da.len() + 1 + spt.len() + 1 + dpt.len() + 2);
            assert(wf_tcp4(l, x));
            lemma_wf_tcp4_accepted(l, x);
        },
        V1Addresses::Tcp6(x) => {
            let (sa, da, spt, dpt) = (display_ipv6(x.source_address), display_ipv6(x.destination_address), display_u16(x.source_port), display_u16(x.destination_port));
            assert(port_ok(spt) && port_ok(dpt));
            assert(ipv6_text(sa) == Some(x.source_address) && ipv6_text(da) == Some(x.destination_address));
            assert(l.len() == 5 + 1 + 4 + 1 + sa.len() + 1 + da.len() + 1 + spt.len() + 1 + dpt.len() + 2);
            assert(wf_tcp6(l, x));
            lemma_wf_tcp6_accepted(l, x);
        },
    }
}

// [props: C08]
pub proof fn lemma_c08_injective(a: V1Addresses, b: V1Addresses)
    requires v1_display(a) == v1_display(b)
    ensures a == b
{
    lemma_c08_roundtrip(a);
    lemma_c08_roundtrip(b);
}

// [props: C08 C15]
/// the format-string literals of the v1 Display impl, as the pieces of the canonical line
pub proof fn lemma_v1_format_literals()
    ensures
        seq![80u8, 82u8, 79u8, 88u8, 89u8, 32u8, 84u8, 67u8, 80u8, 52u8, 32u8] == b_proxy() + sp() + b_tcp4() + sp(),
        seq![80u8, 82u8, 79u8, 88u8, 89u8, 32u8, 84u8, 67u8, 80u8, 54u8, 32u8] == b_proxy() + sp() + b_tcp6() + sp(),
        seq![80u8, 82u8, 79u8, 88u8, 89u8, 32u8, 85u8, 78u8, 75u8, 78u8, 79u8, 87u8, 78u8, 13u8, 10u8] == b_proxy() + sp() + b_unknown() + b_crlf(),
        seq![13u8, 10u8] == b_crlf(),
        seq![32u8] == sp(),
{
    assert(seq![80u8, 82u8, 79u8, 88u8, 89u8, 32u8, 84u8, 67u8, 80u8, 52u8, 32u8] =~= b_proxy() + sp() + b_tcp4() + sp());
    assert(seq![80u8, 82u8, 79u8, 88u8, 89u8, 32u8, 84u8, 67u8, 80u8, 54u8, 32u8] =~= b_proxy() + sp() + b_tcp6() + sp());
    assert(seq![80u8, 82u8, 79u8, 88u8, 89u8, 32u8, 85u8, 78u8, 75u8, 78u8, 79u8, 87u8, 78u8, 13u8, 10u8] =~= b_proxy() + sp() + b_unknown() + b_crlf());
}

// [props: C08 C15]
/// appending the canonical line piece by piece gives the canonical line (re-association only)
#[verifier::spinoff_prover]
#[verifier::rlimit(60)]
pub proof fn lemma_display_onto(o: Seq<u8>, a: V1Addresses)
    ensures v1_display_onto(o, a) =~= o + v1_display(a)
{
    match a {
        V1Addresses::Unknown => {},
        V1Addresses::Tcp4(x) => {
            let (sa, da, spt, dpt) = (display_ipv4(x.source_address), display_ipv4(x.destination_address), display_u16(x.source_port), display_u16(x.destination_port));
            let head = b_proxy() + sp() + b_tcp4() + sp();
            let l1 = head + sa; let l2 = l1 + sp(); let l3 = l2 + da; let l4 = l3 + sp(); let l5 = l4 + spt; let l6 = l5 + sp(); let l7 = l6 + dpt; let l8 = l7 + b_crlf();
            assert(l8 =~= tcp4_line(sa, da, spt, dpt));
            assert(o + head + sa =~= o + l1); assert(o + l1 + sp() =~= o + l2); assert(o + l2 + da =~= o + l3); assert(o + l3 + sp() =~= o + l4);
            assert(o + l4 + spt =~= o + l5); assert(o + l5 + sp() =~= o + l6); assert(o + l6 + dpt =~= o + l7); assert(o + l7 + b_crlf() =~= o + l8);
        },
        V1Addresses::Tcp6(x) => {
            let (sa, da, spt, dpt) = (display_ipv6(x.source_address), display_ipv6(x.destination_address), display_u16(x.source_port), display_u16(x.destination_port));
            let head = b_proxy() + sp() + b_tcp6() + sp();
            let l1 = head + sa; let l2 = l1 + sp(); let l3 = l2 + da; let l4 = l3 + sp(); let l5 = l4 + spt; let l6 = l5 + sp(); let l7 = l6 + dpt; let l8 = l7 + b_crlf();
            assert(l8 =~= tcp6_line(sa, da, spt, dpt));
            assert(o + head + sa =~= o + l1); assert(o + l1 + sp() =~= o + l2); assert(o + l2 + da =~= o + l3); assert(o + l3 + sp() =~= o + l4);
            assert(o + l4 + spt =~= o + l5); assert(o + l5 + sp() =~= o + l6); assert(o + l6 + dpt =~= o + l7); assert(o + l7 + b_crlf() =~= o + l8);
        },
    }
}
