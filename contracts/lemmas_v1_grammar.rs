// ======================================================================================
// C01: the verdict function (split model) accepts exactly the line grammar of the statement.
// ======================================================================================

pub open spec fn pow10(n: nat) -> nat
    decreases n
{ if n == 0 { 1 } else { 10 * pow10((n - 1) as nat) } }

/// a digit string of length n has a value below 10^n, and at least 10^(n-1) when it does not
/// start with '0'
pub proof fn lemma_dec_value_bounds(s: Seq<u8>)
    requires all_digits(s)
    ensures
        dec_value(s) < pow10(s.len()),
        s.len() >= 1 && s[0] != 48u8 ==> dec_value(s) >= pow10((s.len() - 1) as nat),
    decreases s.len()
{
    if s.len() > 0 {
        let t = s.subrange(0, s.len() - 1);
        assert(all_digits(t)) by { assert forall|i: int| 0 <= i < t.len() implies is_digit(#[trigger] t[i]) by { assert(t[i] == s[i]); } }
        lemma_dec_value_bounds(t);
        assert(is_digit(s[s.len() - 1]));
        if s.len() >= 2 { assert(t[0] == s[0]); }
        assert(pow10(s.len()) == 10 * pow10((s.len() - 1) as nat));
        if s.len() == 1 {
            assert(t.len() == 0);
            assert(dec_value(t) == 0);
            assert(pow10(0) == 1);
        } else {
            assert(pow10((s.len() - 1) as nat) == 10 * pow10((s.len() - 2) as nat));
        }
    }
}

pub proof fn lemma_digits_no_sep(s: Seq<u8>)
    requires all_digits(s)
    ensures no_sep(s)
{
    assert forall|i: int| 0 <= i < s.len() implies !is_sep(#[trigger] s[i]) by { assert(is_digit(s[i])); }
}

/// a port in the form the statement demands is accepted by the parser's port checks, with its value
pub proof fn lemma_port_ok_field(s: Seq<u8>)
    requires port_ok(s)
    ensures port_field(s) == Some(dec_value(s) as u16), no_sep(s)
{
    broadcast use crate::prelude::prelude_parse_axioms;
    lemma_digits_no_sep(s);
    assert(is_digit(s[0]));
    assert(!is_prefix_of(seq![43u8], s)) by { if is_prefix_of(seq![43u8], s) { assert(s.subrange(0, 1)[0] == 43u8); } }
    if is_prefix_of(seq![48u8], s) {
        assert(s.subrange(0, 1)[0] == 48u8);
        assert(s.len() == 1);
        assert(s =~= seq![48u8]);
    }
    assert(u16_digits(s) == s);
}

/// ... and only such ports are
pub proof fn lemma_port_field_ok(s: Seq<u8>)
    requires port_field(s) is Some
    ensures port_ok(s), dec_value(s) == port_field(s)->Some_0
{
    broadcast use crate::prelude::prelude_parse_axioms;
    let v = port_field(s)->Some_0;
    assert(u16_text(s) == Some(v));
    assert(!is_prefix_of(seq![43u8], s));
    if s.len() > 0 && s[0] == 43u8 { assert(s.subrange(0, 1) =~= seq![43u8]); assert(false); }
    assert(u16_digits(s) == s);
    assert(s.len() >= 1 && all_digits(s) && dec_value(s) == v);
    if s.len() > 1 && s[0] == 48u8 {
        assert(s.subrange(0, 1) =~= seq![48u8]);
        assert(!(s =~= seq![48u8]));
        assert(false);
    }
    lemma_dec_value_bounds(s);
    if s.len() >= 6 {
        // 10^5 <= 10^(len-1) <= value <= 65535: impossible
        lemma_pow10_mono(5, (s.len() - 1) as nat);
        assert(pow10(5) == 100000) by { reveal_with_fuel(pow10, 6); }
        assert(false);
    }
}

pub proof fn lemma_pow10_pos(n: nat)
    ensures pow10(n) >= 1
    decreases n
{ if n > 0 { lemma_pow10_pos((n - 1) as nat); } }

pub proof fn lemma_pow10_mono(a: nat, b: nat)
    requires a <= b
    ensures pow10(a) <= pow10(b), pow10(a) >= 1
    decreases b
{
    lemma_pow10_pos(a);
    if a < b {
        lemma_pow10_mono(a, (b - 1) as nat);
        lemma_pow10_pos((b - 1) as nat);
    }
}

/// re-association of a thirteen-fold concatenation
#[verifier::spinoff_prover]
pub proof fn lemma_flat7(f0: Seq<u8>, c0: u8, f1: Seq<u8>, c1: u8, f2: Seq<u8>, c2: u8, f3: Seq<u8>, c3: u8,
                         f4: Seq<u8>, c4: u8, f5: Seq<u8>, c5: u8, last: Seq<u8>)
    ensures f0 + seq![c0] + f1 + seq![c1] + f2 + seq![c2] + f3 + seq![c3] + f4 + seq![c4] + f5 + seq![c5] + last
        == f0 + seq![c0] + (f1 + seq![c1] + (f2 + seq![c2] + (f3 + seq![c3] + (f4 + seq![c4] + (f5 + seq![c5] + last)))))
{
    let r5 = f5 + seq![c5] + last;
    let r4 = f4 + seq![c4] + r5;
    let r3 = f3 + seq![c3] + r4;
    let r2 = f2 + seq![c2] + r3;
    let r1 = f1 + seq![c1] + r2;
    let a5 = f0 + seq![c0] + f1 + seq![c1] + f2 + seq![c2] + f3 + seq![c3] + f4 + seq![c4];
    let a4 = f0 + seq![c0] + f1 + seq![c1] + f2 + seq![c2] + f3 + seq![c3];
    let a3 = f0 + seq![c0] + f1 + seq![c1] + f2 + seq![c2];
    let a2 = f0 + seq![c0] + f1 + seq![c1];
    let a1 = f0 + seq![c0];
    assert(a5 + f5 + seq![c5] + last =~= a5 + r5);
    assert(a5 + r5 =~= a4 + r4);
    assert(a4 + r4 =~= a3 + r3);
    assert(a3 + r3 =~= a2 + r2);
    assert(a2 + r2 =~= a1 + r1);
}

/// the seven pieces of  f0 c0 f1 c1 f2 c2 f3 c3 f4 c4 f5 c5 last
pub proof fn lemma_split7(f0: Seq<u8>, c0: u8, f1: Seq<u8>, c1: u8, f2: Seq<u8>, c2: u8, f3: Seq<u8>, c3: u8,
                          f4: Seq<u8>, c4: u8, f5: Seq<u8>, c5: u8, last: Seq<u8>)
    requires no_sep(f0), no_sep(f1), no_sep(f2), no_sep(f3), no_sep(f4), no_sep(f5),
        is_sep(c0), is_sep(c1), is_sep(c2), is_sep(c3), is_sep(c4), is_sep(c5)
    ensures splitn_spec(f0 + seq![c0] + f1 + seq![c1] + f2 + seq![c2] + f3 + seq![c3] + f4 + seq![c4] + f5 + seq![c5] + last, 7)
        =~= seq![f0, f1, f2, f3, f4, f5, last]
{
    let r5 = f5 + seq![c5] + last;
    let r4 = f4 + seq![c4] + r5;
    let r3 = f3 + seq![c3] + r4;
    let r2 = f2 + seq![c2] + r3;
    let r1 = f1 + seq![c1] + r2;
    lemma_flat7(f0, c0, f1, c1, f2, c2, f3, c3, f4, c4, f5, c5, last);
    lemma_split_cons(f0, c0, r1, 7);
    lemma_split_cons(f1, c1, r2, 6);
    lemma_split_cons(f2, c2, r3, 5);
    lemma_split_cons(f3, c3, r4, 4);
    lemma_split_cons(f4, c4, r5, 3);
    lemma_split_cons(f5, c5, last, 2);
    assert(splitn_spec(last, 1) =~= seq![last]);
    let s6 = seq![last];
    let s5 = seq![f5] + s6;
    let s4 = seq![f4] + s5;
    let s3 = seq![f3] + s4;
    let s2 = seq![f2] + s3;
    let s1 = seq![f1] + s2;
    assert(seq![f0] + s1 =~= seq![f0, f1, f2, f3, f4, f5, last]);
}

/// conversely: a line with seven pieces is those pieces joined by six separator bytes
#[verifier::rlimit(60)]
pub proof fn lemma_split7_join(w: Seq<u8>) -> (c: Seq<u8>)
    requires splitn_spec(w, 7).len() == 7
    ensures ({
        let p = splitn_spec(w, 7);
        &&& c.len() == 6 && (forall|i: int| 0 <= i < 6 ==> is_sep(#[trigger] c[i]))
        &&& no_sep(p[0]) && no_sep(p[1]) && no_sep(p[2]) && no_sep(p[3]) && no_sep(p[4]) && no_sep(p[5])
        &&& w =~= p[0] + seq![c[0]] + p[1] + seq![c[1]] + p[2] + seq![c[2]] + p[3] + seq![c[3]] + p[4] + seq![c[4]] + p[5] + seq![c[5]] + p[6]
    }),
{
    let p = splitn_spec(w, 7);
    // peel one piece at a time
    let (r1, c0) = lemma_peel(w, 7);
    let p1 = splitn_spec(r1, 6);
    assert(p1 =~= p.subrange(1, 7));
    let (r2, c1) = lemma_peel(r1, 6);
    let p2 = splitn_spec(r2, 5);
    assert(p2 =~= p1.subrange(1, 6));
    let (r3, c2) = lemma_peel(r2, 5);
    let p3 = splitn_spec(r3, 4);
    assert(p3 =~= p2.subrange(1, 5));
    let (r4, c3) = lemma_peel(r3, 4);
    let p4 = splitn_spec(r4, 3);
    assert(p4 =~= p3.subrange(1, 4));
    let (r5, c4) = lemma_peel(r4, 3);
    let p5 = splitn_spec(r5, 2);
    assert(p5 =~= p4.subrange(1, 3));
    let (r6, c5) = lemma_peel(r5, 2);
    let p6 = splitn_spec(r6, 1);
    assert(p6 =~= p5.subrange(1, 2));
    assert(p6 =~= seq![r6]);
    assert(p[1] == p1[0] && p[2] == p2[0] && p[3] == p3[0] && p[4] == p4[0] && p[5] == p5[0] && p[6] == p6[0]);
    let c = seq![c0, c1, c2, c3, c4, c5];
    assert(p[6] == r6);
    assert(w =~= p[0] + seq![c[0]] + p[1] + seq![c[1]] + p[2] + seq![c[2]] + p[3] + seq![c[3]] + p[4] + seq![c[4]] + p[5] + seq![c[5]] + p[6]);
    c
}

/// peel the first piece off a line that has more than one piece
pub proof fn lemma_peel(w: Seq<u8>, n: nat) -> (r: (Seq<u8>, u8))
    requires n >= 2, splitn_spec(w, n).len() >= 2
    ensures ({
        let p = splitn_spec(w, n);
        &&& is_sep(r.1) && no_sep(p[0]) && w =~= p[0] + seq![r.1] + r.0
        &&& splitn_spec(r.0, (n - 1) as nat) =~= p.subrange(1, p.len() as int)
    }),
{
    lemma_first_sep_bounds(w);
    lemma_split_unfold(w, n);
    let f = first_sep(w);
    let p = splitn_spec(w, n);
    if f >= w.len() { assert(p.len() == 1); }
    let rest = w.subrange(f + 1, w.len() as int);
    assert(p =~= seq![w.subrange(0, f)] + splitn_spec(rest, (n - 1) as nat));
    assert forall|j: int| 0 <= j < f implies !is_sep(#[trigger] w.subrange(0, f)[j]) by { assert(w.subrange(0, f)[j] == w[j]); }
    assert(w =~= w.subrange(0, f) + seq![w[f]] + rest);
    (rest, w[f])
}

pub proof fn lemma_no_sp_cr_no_sep(s: Seq<u8>)
    requires bytes_no_sp_cr(s)
    ensures no_sep(s)
{
    assert forall|i: int| 0 <= i < s.len() implies !is_sep(#[trigger] s[i]) by {}
}

pub proof fn lemma_keywords_no_sep()
    ensures no_sep(b_proxy()), no_sep(b_tcp4()), no_sep(b_tcp6()), no_sep(b_unknown())
{
}

/// a TCP line in the statement's form, with valid fields, is split into exactly its fields
pub proof fn lemma_tcp_line_split(kw: Seq<u8>, a: Seq<u8>, b: Seq<u8>, p: Seq<u8>, q: Seq<u8>)
    requires no_sep(kw), no_sep(a), no_sep(b), no_sep(p), no_sep(q)
    ensures
        splitn_spec(b_proxy() + sp() + kw + sp() + a + sp() + b + sp() + p + sp() + q + b_crlf(), 7)
            =~= seq![b_proxy(), kw, a, b, p, q, seq![10u8]],
{
    lemma_keywords_no_sep();
    let l = b_proxy() + sp() + kw + sp() + a + sp() + b + sp() + p + sp() + q + b_crlf();
    let m = b_proxy() + seq![32u8] + kw + seq![32u8] + a + seq![32u8] + b + seq![32u8] + p + seq![32u8] + q + seq![13u8] + seq![10u8];
    assert(l =~= m);
    lemma_split7(b_proxy(), 32u8, kw, 32u8, a, 32u8, b, 32u8, p, 32u8, q, 13u8, seq![10u8]);
}

// [props: C01 C08]
/// (statement ==> verdict) a well-formed TCP4 line of at most 107 bytes is accepted with exactly
/// the addresses and ports written
#[verifier::rlimit(60)]
pub proof fn lemma_wf_tcp4_accepted(l: Seq<u8>, x: crate::ip::IPv4)
    requires wf_tcp4(l, x), l.len() <= 107
    ensures line_verdict(l) == V1V::Accept(V1Addresses::Tcp4(x))
{
    broadcast use crate::prelude::prelude_parse_axioms;
    let (a, b, p, q) = choose|a: Seq<u8>, b: Seq<u8>, p: Seq<u8>, q: Seq<u8>| #![auto]
        l =~= tcp4_line(a, b, p, q)
        && ipv4_text(a) == Some(x.source_address) && ipv4_text(b) == Some(x.destination_address)
        && port_ok(p) && port_ok(q) && dec_value(p) == x.source_port && dec_value(q) == x.destination_port;
    assert(from_str_spec::<std::net::Ipv4Addr>(a) is Ok && from_str_spec::<std::net::Ipv4Addr>(b) is Ok);
    lemma_no_sp_cr_no_sep(a); lemma_no_sp_cr_no_sep(b);
    lemma_port_ok_field(p); lemma_port_ok_field(q);
    lemma_keywords_no_sep();
    lemma_tcp_line_split(b_tcp4(), a, b, p, q);
    let parts = splitn_spec(l, 7);
    assert(parts =~= seq![b_proxy(), b_tcp4(), a, b, p, q, seq![10u8]]);
    let n = l.len() as int;
    assert(l[n - 1] == 10u8 && l[n - 2] == 13u8);
    assert(is_suffix_of(b_crlf(), l)) by { assert(l.subrange(n - 2, n) =~= b_crlf()); }
    assert(!is_suffix_of(b_proxy(), l)) by {
        if is_suffix_of(b_proxy(), l) { assert(l.subrange(n - 5, n)[4] == l[n - 1]); }
    }
    assert(addr_fields_kind::<std::net::Ipv4Addr>(parts) is None);
    assert(tcp_tail_kind(l, parts) is None);
    let got = crate::ip::IPv4 {
        source_address: from_str_spec::<std::net::Ipv4Addr>(parts[2])->Ok_0,
        source_port: port_field(parts[4])->Some_0,
        destination_address: from_str_spec::<std::net::Ipv4Addr>(parts[3])->Ok_0,
        destination_port: port_field(parts[5])->Some_0 };
    assert(got == x);
}

// [props: C01 C08]
#[verifier::rlimit(60)]
pub proof fn lemma_wf_tcp6_accepted(l: Seq<u8>, x: crate::ip::IPv6)
    requires wf_tcp6(l, x), l.len() <= 107
    ensures line_verdict(l) == V1V::Accept(V1Addresses::Tcp6(x))
{
    broadcast use crate::prelude::prelude_parse_axioms;
    let (a, b, p, q) = choose|a: Seq<u8>, b: Seq<u8>, p: Seq<u8>, q: Seq<u8>| #![auto]
        l =~= tcp6_line(a, b, p, q)
        && ipv6_text(a) == Some(x.source_address) && ipv6_text(b) == Some(x.destination_address)
        && port_ok(p) && port_ok(q) && dec_value(p) == x.source_port && dec_value(q) == x.destination_port;
    assert(from_str_spec::<std::net::Ipv6Addr>(a) is Ok && from_str_spec::<std::net::Ipv6Addr>(b) is Ok);
    lemma_no_sp_cr_no_sep(a); lemma_no_sp_cr_no_sep(b);
    lemma_port_ok_field(p); lemma_port_ok_field(q);
    lemma_keywords_no_sep();
    lemma_tcp_line_split(b_tcp6(), a, b, p, q);
    let parts = splitn_spec(l, 7);
    assert(parts =~= seq![b_proxy(), b_tcp6(), a, b, p, q, seq![10u8]]);
    let n = l.len() as int;
    assert(l[n - 1] == 10u8 && l[n - 2] == 13u8);
    assert(is_suffix_of(b_crlf(), l)) by { assert(l.subrange(n - 2, n) =~= b_crlf()); }
    assert(!is_suffix_of(b_proxy(), l)) by {
        if is_suffix_of(b_proxy(), l) { assert(l.subrange(n - 5, n)[4] == l[n - 1]); }
    }
    assert(!(parts[1] =~= b_tcp4())) by { assert(b_tcp6()[3] != b_tcp4()[3]); }
    assert(addr_fields_kind::<std::net::Ipv6Addr>(parts) is None);
    assert(tcp_tail_kind(l, parts) is None);
    let got = crate::ip::IPv6 {
        source_address: from_str_spec::<std::net::Ipv6Addr>(parts[2])->Ok_0,
        source_port: port_field(parts[4])->Some_0,
        destination_address: from_str_spec::<std::net::Ipv6Addr>(parts[3])->Ok_0,
        destination_port: port_field(parts[5])->Some_0 };
    assert(got == x);
}

/// shared part of the converse: an accepted TCP line inside a window is its seven pieces joined
/// by five spaces and CR, the last piece being LF
#[verifier::rlimit(60)]
pub proof fn lemma_accepted_tcp_shape(w: Seq<u8>, kw: Seq<u8>)
    requires
        splitn_spec(w, 7).len() == 7,
        splitn_spec(w, 7)[0] =~= b_proxy(), splitn_spec(w, 7)[1] =~= kw, kw.len() == 4,
        splitn_spec(w, 7)[6] =~= seq![10u8], is_suffix_of(b_crlf(), w),
        first_index_of(w, 13u8) + 2 == w.len(),
    ensures ({
        let p = splitn_spec(w, 7);
        w =~= b_proxy() + sp() + kw + sp() + p[2] + sp() + p[3] + sp() + p[4] + sp() + p[5] + b_crlf()
    }),
{
    broadcast use crate::prelude::prelude_str_axioms;
    let p = splitn_spec(w, 7);
    let c = lemma_split7_join(w);
    let j = p[0] + seq![c[0]] + p[1] + seq![c[1]] + p[2] + seq![c[2]] + p[3] + seq![c[3]] + p[4] + seq![c[4]] + p[5] + seq![c[5]] + p[6];
    assert(w =~= j);
    lemma_first_index_bounds(w, 13u8);
    let n = w.len() as int;
    let i0 = 5int; let i1 = 10int;
    let i2 = 11 + p[2].len() as int; let i3 = i2 + 1 + p[3].len() as int;
    let i4 = i3 + 1 + p[4].len() as int; let i5 = i4 + 1 + p[5].len() as int;
    assert(n == i5 + 2);
    assert(j[i0] == c[0] && j[i1] == c[1] && j[i2] == c[2] && j[i3] == c[3] && j[i4] == c[4] && j[i5] == c[5]);
    assert(is_sep(c[0]) && is_sep(c[1]) && is_sep(c[2]) && is_sep(c[3]) && is_sep(c[4]) && is_sep(c[5]));
    assert(w[i0] != 13u8 && w[i1] != 13u8 && w[i2] != 13u8 && w[i3] != 13u8 && w[i4] != 13u8);
    assert(w.subrange(n - 2, n)[0] == 13u8);
    assert(c[5] == 13u8);
    assert(w =~= b_proxy() + sp() + kw + sp() + p[2] + sp() + p[3] + sp() + p[4] + sp() + p[5] + b_crlf());
}

// [props: C01]
/// (verdict ==> statement) an accepted TCP4 window is a well-formed TCP4 line in the statement's
/// form, and the reported addresses and ports are the ones written
#[verifier::rlimit(60)]
pub proof fn lemma_accepted_tcp4_wf(w: Seq<u8>, x: crate::ip::IPv4)
    requires line_verdict(w) == V1V::Accept(V1Addresses::Tcp4(x)), first_index_of(w, 13u8) + 2 == w.len()
    ensures wf_tcp4(w, x), w.len() <= 107
{
    let parts = splitn_spec(w, 7);
    lemma_split_len(w, 7);
    assert(parts[1] =~= b_tcp4()) by {
        if parts[1] =~= b_tcp6() { assert(b_tcp6()[3] != b_tcp4()[3]); }
        if parts[1] =~= b_unknown() {}
    }
    assert(addr_fields_kind::<std::net::Ipv4Addr>(parts) is None);
    assert(tcp_tail_kind(w, parts) is None);
    lemma_accepted_tcp_shape(w, b_tcp4());
    lemma_port_field_ok(parts[4]); lemma_port_field_ok(parts[5]);
    let (a, b, p, q) = (parts[2], parts[3], parts[4], parts[5]);
    assert(w =~= tcp4_line(a, b, p, q));
    assert(ipv4_text(a) == Some(x.source_address) && ipv4_text(b) == Some(x.destination_address));
    assert(dec_value(p) == x.source_port && dec_value(q) == x.destination_port);
}

// [props: C01]
#[verifier::rlimit(60)]
pub proof fn lemma_accepted_tcp6_wf(w: Seq<u8>, x: crate::ip::IPv6)
    requires line_verdict(w) == V1V::Accept(V1Addresses::Tcp6(x)), first_index_of(w, 13u8) + 2 == w.len()
    ensures wf_tcp6(w, x), w.len() <= 107
{
    let parts = splitn_spec(w, 7);
    lemma_split_len(w, 7);
    assert(parts[1] =~= b_tcp6()) by {
        if parts[1] =~= b_tcp4() {}
        if parts[1] =~= b_unknown() {}
    }
    assert(!(parts[1] =~= b_tcp4())) by { assert(b_tcp6()[3] != b_tcp4()[3]); }
    assert(addr_fields_kind::<std::net::Ipv6Addr>(parts) is None);
    assert(tcp_tail_kind(w, parts) is None);
    lemma_accepted_tcp_shape(w, b_tcp6());
    lemma_port_field_ok(parts[4]); lemma_port_field_ok(parts[5]);
    let (a, b, p, q) = (parts[2], parts[3], parts[4], parts[5]);
    assert(w =~= tcp6_line(a, b, p, q));
    assert(ipv6_text(a) == Some(x.source_address) && ipv6_text(b) == Some(x.destination_address));
    assert(dec_value(p) == x.source_port && dec_value(q) == x.destination_port);
}

// [props: C01 C08]
/// (statement ==> verdict) `PROXY UNKNOWN`, optionally a space and any text without CR, CRLF
#[verifier::rlimit(60)]
pub proof fn lemma_unknown_line_accepted(l: Seq<u8>)
    requires unknown_line(l), l.len() <= 107
    ensures line_verdict(l) == V1V::Accept(V1Addresses::Unknown)
{
    lemma_keywords_no_sep();
    let head = b_proxy() + sp() + b_unknown();
    let n = l.len() as int;
    if l =~= head + b_crlf() {
        let m = b_proxy() + seq![32u8] + (b_unknown() + seq![13u8] + seq![10u8]);
        assert(l =~= m);
        lemma_split_cons(b_proxy(), 32u8, b_unknown() + seq![13u8] + seq![10u8], 7);
        lemma_split_cons(b_unknown(), 13u8, seq![10u8], 6);
        lemma_split_len(seq![10u8], 5);
    } else {
        let t = choose|t: Seq<u8>| #![auto] l =~= head + sp() + t + b_crlf() && (forall|i: int| 0 <= i < t.len() ==> t[i] != 13u8);
        let rest = t + b_crlf();
        let m = b_proxy() + seq![32u8] + (b_unknown() + seq![32u8] + rest);
        assert(l =~= m);
        lemma_split_cons(b_proxy(), 32u8, b_unknown() + seq![32u8] + rest, 7);
        lemma_split_cons(b_unknown(), 32u8, rest, 6);
        lemma_split_len(rest, 5);
    }
    let parts = splitn_spec(l, 7);
    assert(parts[0] =~= b_proxy() && parts[1] =~= b_unknown() && parts.len() >= 2);
    assert(l[n - 1] == 10u8 && l[n - 2] == 13u8);
    assert(is_suffix_of(b_crlf(), l)) by { assert(l.subrange(n - 2, n) =~= b_crlf()); }
    assert(!is_suffix_of(b_proxy(), l)) by {
        if is_suffix_of(b_proxy(), l) { assert(l.subrange(n - 5, n)[4] == l[n - 1]); }
    }
    assert(!(parts[1] =~= b_tcp4()) && !(parts[1] =~= b_tcp6()));
}

// [props: C01]
/// (verdict ==> statement) an accepted UNKNOWN window has the statement's form
pub proof fn lemma_accepted_unknown_wf(w: Seq<u8>)
    requires line_verdict(w) == V1V::Accept(V1Addresses::Unknown), first_index_of(w, 13u8) + 2 == w.len()
    ensures unknown_line(w), w.len() <= 107
{
    broadcast use crate::prelude::prelude_str_axioms;
    lemma_accept_shape(w);
    lemma_first_index_bounds(w, 13u8);
    let n = w.len() as int;
    let head = b_proxy() + sp() + b_unknown();
    assert(w[5] == 32u8);
    assert(w.subrange(0, 13) =~= head) by {
        assert forall|i: int| 0 <= i < 13 implies w.subrange(0, 13)[i] == head[i] by {
            if i < 5 { assert(w.subrange(0, 5)[i] == w[i]); }
            else if i > 5 { assert(w.subrange(6, 13)[i - 6] == w[i]); }
        }
    }
    assert(w[n - 2] == 13u8 && w[n - 1] == 10u8) by { assert(w.subrange(n - 2, n)[0] == 13u8 && w.subrange(n - 2, n)[1] == 10u8); }
    if n == 15 {
        assert(w =~= head + b_crlf());
    } else {
        assert(w[13] == 32u8);
        let t = w.subrange(14, n - 2);
        assert(w =~= head + sp() + t + b_crlf());
        assert forall|i: int| 0 <= i < t.len() implies t[i] != 13u8 by { assert(t[i] == w[14 + i]); }
    }
}

/// an accepted line is a window: it ends with the only CR it contains, followed by LF
pub proof fn lemma_accept_is_terminated(s: Seq<u8>)
    requires entry_verdict_str(s) is Accept
    ensures v1_terminated(s), first_index_of(v1_window(s), 13u8) + 2 == v1_window(s).len(),
        header_verdict(v1_window(s)) == entry_verdict_str(s), line_verdict(v1_window(s)) == entry_verdict_str(s),
        v1_window(s).len() == first_index_of(s, 13u8) + 2
{
    broadcast use crate::prelude::prelude_str_axioms;
    let w = v1_window(s);
    lemma_first_index_bounds(s, 13u8);
    lemma_accept_shape(w);
    let n = w.len() as int;
    assert(w[n - 2] == 13u8) by { assert(w.subrange(n - 2, n)[0] == 13u8); }
    let cr = first_index_of(s, 13u8);
    // the window contains a CR, so the input does, and the window is s[..cr+2]
    if cr >= s.len() {
        assert(w =~= s);
        assert(s[n - 2] == 13u8);
        assert(false);
    }
    lemma_first_index_prefix(s, n, 13u8);
    if cr + 2 > s.len() {
        // window == s and its CR is the last byte: it cannot end with CRLF
        assert(n == s.len());
        assert(w[n - 1] == 10u8) by { assert(w.subrange(n - 2, n)[1] == 10u8); }
        assert(s[cr] == 13u8);
        assert(false);
    }
}

// [props: C01]
/// C01 for the text entry point, from the clauses Verus proves on `try_from(&str)`:
/// success iff the input starts with a well-formed line (ended by its first CR followed by LF);
/// the header text is that line and the addresses are the ones written
#[verifier::rlimit(60)]
pub proof fn lemma_c01_text(s: Seq<u8>, r: Result<V1Header, V1Error>)
    requires
        vstd::utf8::valid_utf8(s),
        r is Ok <==> entry_verdict_str(s) is Accept,
        r is Ok ==> realises(v1_window(s), r, entry_verdict_str(s)),
    ensures c01_post(s, r)
{
    broadcast use crate::prelude::prelude_str_axioms;
    broadcast use crate::prelude::prelude_utf8_axioms;
    let w = v1_window(s);
    if entry_verdict_str(s) is Accept {
        lemma_accept_is_terminated(s);
        let a = entry_verdict_str(s)->Accept_0;
        match a {
            V1Addresses::Unknown => { lemma_accepted_unknown_wf(w); },
            V1Addresses::Tcp4(x) => { lemma_accepted_tcp4_wf(w, x); },
            V1Addresses::Tcp6(x) => { lemma_accepted_tcp6_wf(w, x); },
        }
        assert(wf_line(w, a));
    }
    if v1_terminated(s) && exists|a: V1Addresses| wf_line(w, a) {
        let a = choose|a: V1Addresses| wf_line(w, a);
        match a {
            V1Addresses::Unknown => { lemma_unknown_line_accepted(w); },
            V1Addresses::Tcp4(x) => { lemma_wf_tcp4_accepted(w, x); },
            V1Addresses::Tcp6(x) => { lemma_wf_tcp6_accepted(w, x); },
        }
        assert(line_verdict(w) == V1V::Accept(a));
        assert(header_verdict(w) == V1V::Accept(a));
        // the cut after the LF is on a character boundary: the byte before it is ASCII
        lemma_first_index_bounds(s, 13u8);
        lemma_accept_shape(w);
        let n = w.len() as int;
        assert(w[n - 1] == 10u8) by { assert(w.subrange(n - 2, n)[1] == 10u8); }
        assert(s[n - 1] == 10u8);
        assert(str_cut_ok(s, n));
        assert(entry_verdict_str(s) == V1V::Accept(a));
    }
}
