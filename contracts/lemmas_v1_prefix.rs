// ======================================================================================
// C05 (v1 half): every proper prefix of a well-formed line has an incomplete verdict.
// ======================================================================================

/// f_0 c_0 f_1 c_1 ... f_{m-1} c_{m-1} g
pub open spec fn join_prefix(fs: Seq<Seq<u8>>, cs: Seq<u8>, g: Seq<u8>) -> Seq<u8>
    decreases fs.len()
{
    if fs.len() == 0 || cs.len() == 0 { g }
    else { fs[0] + seq![cs[0]] + join_prefix(fs.subrange(1, fs.len() as int), cs.subrange(1, cs.len() as int), g) }
}

pub open spec fn all_no_sep(fs: Seq<Seq<u8>>) -> bool { forall|i: int| 0 <= i < fs.len() ==> no_sep(#[trigger] fs[i]) }
pub open spec fn all_sep(cs: Seq<u8>) -> bool { forall|i: int| 0 <= i < cs.len() ==> is_sep(#[trigger] cs[i]) }

pub proof fn lemma_split_no_sep(g: Seq<u8>, n: nat)
    requires no_sep(g), n >= 1
    ensures splitn_spec(g, n) =~= seq![g]
{
    if n >= 2 {
        lemma_first_sep_is(g, g.len() as int);
    }
}

/// the pieces of such a joined text are the fields followed by g
pub proof fn lemma_split_join_prefix(fs: Seq<Seq<u8>>, cs: Seq<u8>, g: Seq<u8>, n: nat)
    requires all_no_sep(fs), all_sep(cs), no_sep(g), cs.len() == fs.len(), fs.len() + 1 <= n
    ensures splitn_spec(join_prefix(fs, cs, g), n) =~= fs + seq![g]
    decreases fs.len()
{
    if fs.len() == 0 {
        lemma_split_no_sep(g, n);
    } else {
        let fr = fs.subrange(1, fs.len() as int);
        let cr = cs.subrange(1, cs.len() as int);
        assert(all_no_sep(fr)) by { assert forall|i: int| 0 <= i < fr.len() implies no_sep(#[trigger] fr[i]) by { assert(fr[i] == fs[i + 1]); } }
        assert(all_sep(cr)) by { assert forall|i: int| 0 <= i < cr.len() implies is_sep(#[trigger] cr[i]) by { assert(cr[i] == cs[i + 1]); } }
        lemma_split_join_prefix(fr, cr, g, (n - 1) as nat);
        assert(no_sep(fs[0]) && is_sep(cs[0]));
        lemma_split_cons(fs[0], cs[0], join_prefix(fr, cr, g), n);
        assert(seq![fs[0]] + (fr + seq![g]) =~= fs + seq![g]);
    }
}

pub proof fn lemma_join_len(fs: Seq<Seq<u8>>, cs: Seq<u8>, g: Seq<u8>)
    ensures join_prefix(fs, cs, g).len() >= g.len()
    decreases fs.len()
{
    if fs.len() > 0 && cs.len() > 0 {
        lemma_join_len(fs.subrange(1, fs.len() as int), cs.subrange(1, cs.len() as int), g);
    }
}

/// every prefix of f_0 c_0 ... f_{m-1} c_{m-1} last is f_0 c_0 ... f_{i-1} c_{i-1} g with g a prefix
/// of f_i (or of `last` when i == m)
pub proof fn lemma_prefix_decompose(fs: Seq<Seq<u8>>, cs: Seq<u8>, last: Seq<u8>, k: int) -> (r: (int, Seq<u8>))
    requires cs.len() == fs.len(), 0 <= k <= join_prefix(fs, cs, last).len()
    ensures ({
        let (i, g) = r;
        &&& 0 <= i <= fs.len()
        &&& join_prefix(fs, cs, last).subrange(0, k) =~= join_prefix(fs.subrange(0, i), cs.subrange(0, i), g)
        &&& is_prefix_of(g, if i < fs.len() { fs[i] } else { last })
        &&& (i == fs.len() ==> join_prefix(fs, cs, last).len() - k == last.len() - g.len())
        &&& (i < fs.len() ==> join_prefix(fs, cs, last).len() - k > last.len())
    }),
    decreases fs.len()
{
    let l = join_prefix(fs, cs, last);
    if fs.len() == 0 {
        let g = last.subrange(0, k);
        assert(join_prefix(fs.subrange(0, 0), cs.subrange(0, 0), g) =~= g);
        (0, g)
    } else if k <= fs[0].len() {
        lemma_join_len(fs.subrange(1, fs.len() as int), cs.subrange(1, cs.len() as int), last);
        let g = fs[0].subrange(0, k);
        assert(join_prefix(fs.subrange(0, 0), cs.subrange(0, 0), g) =~= g);
        assert(l.subrange(0, k) =~= g);
        (0, g)
    } else {
        let fr = fs.subrange(1, fs.len() as int);
        let cr = cs.subrange(1, cs.len() as int);
        let rest = join_prefix(fr, cr, last);
        let k2 = k - fs[0].len() - 1;
        let (i2, g) = lemma_prefix_decompose(fr, cr, last, k2);
        let i = i2 + 1;
        let fi = fs.subrange(0, i);
        let ci = cs.subrange(0, i);
        assert(fi.subrange(1, fi.len() as int) =~= fr.subrange(0, i2));
        assert(ci.subrange(1, ci.len() as int) =~= cr.subrange(0, i2));
        assert(fi[0] == fs[0] && ci[0] == cs[0]);
        assert(l.subrange(0, k) =~= fs[0] + seq![cs[0]] + rest.subrange(0, k2));
        if i2 < fr.len() { assert(fr[i2] == fs[i]); }
        (i, g)
    }
}

pub proof fn lemma_dec_value_prefix(s: Seq<u8>, j: int)
    requires all_digits(s), 0 <= j <= s.len()
    ensures dec_value(s.subrange(0, j)) <= dec_value(s), all_digits(s.subrange(0, j))
    decreases s.len() - j
{
    assert forall|i: int| 0 <= i < j implies is_digit(#[trigger] s.subrange(0, j)[i]) by { assert(s.subrange(0, j)[i] == s[i]); }
    if j < s.len() {
        lemma_dec_value_prefix(s, j + 1);
        let t = s.subrange(0, j + 1);
        assert(t.subrange(0, t.len() - 1) =~= s.subrange(0, j));
    } else {
        assert(s.subrange(0, j) =~= s);
    }
}

/// a non-empty prefix of a valid port is a valid port
pub proof fn lemma_port_prefix_ok(q: Seq<u8>, g: Seq<u8>)
    requires port_ok(q), is_prefix_of(g, q), g.len() >= 1
    ensures port_ok(g)
{
    assert(g =~= q.subrange(0, g.len() as int));
    lemma_dec_value_prefix(q, g.len() as int);
    assert(g[0] == q[0]);
    if g.len() > 1 { assert(q.len() > 1); }
}



/// field bytes of a TCP line: never 'Y', and never CR
pub open spec fn plain_field(s: Seq<u8>) -> bool { forall|i: int| 0 <= i < s.len() ==> #[trigger] s[i] != 89u8 && s[i] != 13u8 }

pub proof fn lemma_addr_plain(s: Seq<u8>)
    requires addr_bytes(s)
    ensures plain_field(s), no_sep(s)
{
    assert forall|i: int| 0 <= i < s.len() implies #[trigger] s[i] != 89u8 && s[i] != 13u8 by { assert(addr_byte(s[i])); }
    assert forall|i: int| 0 <= i < s.len() implies !is_sep(#[trigger] s[i]) by { assert(addr_byte(s[i])); }
}
pub proof fn lemma_digits_plain(s: Seq<u8>)
    requires all_digits(s)
    ensures plain_field(s), no_sep(s)
{
    assert forall|i: int| 0 <= i < s.len() implies #[trigger] s[i] != 89u8 && s[i] != 13u8 by { assert(is_digit(s[i])); }
    assert forall|i: int| 0 <= i < s.len() implies !is_sep(#[trigger] s[i]) by { assert(is_digit(s[i])); }
}

pub open spec fn tcp_fields(kw: Seq<u8>, a: Seq<u8>, b: Seq<u8>, p: Seq<u8>, q: Seq<u8>) -> Seq<Seq<u8>> { seq![b_proxy(), kw, a, b, p, q] }
pub open spec fn tcp_seps() -> Seq<u8> { seq![32u8, 32u8, 32u8, 32u8, 32u8, 13u8] }
pub open spec fn tcp_line(kw: Seq<u8>, a: Seq<u8>, b: Seq<u8>, p: Seq<u8>, q: Seq<u8>) -> Seq<u8> {
    b_proxy() + sp() + kw + sp() + a + sp() + b + sp() + p + sp() + q + b_crlf()
}

/// the TCP line as a joined sequence of fields
#[verifier::spinoff_prover]
pub proof fn lemma_tcp_line_is_join(kw: Seq<u8>, a: Seq<u8>, b: Seq<u8>, p: Seq<u8>, q: Seq<u8>)
    ensures join_prefix(tcp_fields(kw, a, b, p, q), tcp_seps(), seq![10u8]) == tcp_line(kw, a, b, p, q)
{
    let fs = tcp_fields(kw, a, b, p, q);
    let cs = tcp_seps();
    let last = seq![10u8];
    let l = tcp_line(kw, a, b, p, q);
    lemma_flat7(b_proxy(), 32u8, kw, 32u8, a, 32u8, b, 32u8, p, 32u8, q, 13u8, last);
    let f1 = fs.subrange(1, 6); let c1 = cs.subrange(1, 6);
    let f2 = f1.subrange(1, 5); let c2 = c1.subrange(1, 5);
    let f3 = f2.subrange(1, 4); let c3 = c2.subrange(1, 4);
    let f4 = f3.subrange(1, 3); let c4 = c3.subrange(1, 3);
    let f5 = f4.subrange(1, 2); let c5 = c4.subrange(1, 2);
    let f6 = f5.subrange(1, 1); let c6 = c5.subrange(1, 1);
    assert(join_prefix(f6, c6, last) == last);
    assert(join_prefix(f5, c5, last) == q + seq![13u8] + last);
    assert(join_prefix(f4, c4, last) == p + seq![32u8] + (q + seq![13u8] + last));
    assert(join_prefix(f3, c3, last) == b + seq![32u8] + (p + seq![32u8] + (q + seq![13u8] + last)));
    assert(join_prefix(f2, c2, last) == a + seq![32u8] + (b + seq![32u8] + (p + seq![32u8] + (q + seq![13u8] + last))));
    assert(join_prefix(f1, c1, last) == kw + seq![32u8] + (a + seq![32u8] + (b + seq![32u8] + (p + seq![32u8] + (q + seq![13u8] + last)))));
    assert(join_prefix(fs, cs, last) == b_proxy() + seq![32u8] + (kw + seq![32u8] + (a + seq![32u8] + (b + seq![32u8] + (p + seq![32u8] + (q + seq![13u8] + last))))));
    assert(l =~= b_proxy() + seq![32u8] + kw + seq![32u8] + a + seq![32u8] + b + seq![32u8] + p + seq![32u8] + q + seq![13u8] + last);
}

/// byte-level facts of a TCP line: no 'Y' after `PROXY`, no CR before the final CRLF
pub proof fn lemma_line_bytes(kw: Seq<u8>, a: Seq<u8>, b: Seq<u8>, p: Seq<u8>, q: Seq<u8>, j: int)
    requires plain_field(kw), plain_field(a), plain_field(b), plain_field(p), plain_field(q),
        0 <= j < tcp_line(kw, a, b, p, q).len()
    ensures ({
        let l = tcp_line(kw, a, b, p, q);
        &&& (j >= 5 ==> l[j] != 89u8)
        &&& (j < l.len() - 2 ==> l[j] != 13u8)
        &&& l[l.len() - 2] == 13u8 && l[l.len() - 1] == 10u8
    }),
{
    let l = tcp_line(kw, a, b, p, q);
    let o1 = 6int; let o2 = o1 + kw.len() + 1; let o3 = o2 + a.len() + 1; let o4 = o3 + b.len() + 1; let o5 = o4 + p.len() + 1;
    let o6 = o5 + q.len();
    assert(l.len() == o6 + 2);
    if j < 5 { assert(l[j] == b_proxy()[j]); }
    else if j == 5 { assert(l[j] == 32u8); }
    else if j < o1 + kw.len() { assert(l[j] == kw[j - o1]); }
    else if j == o2 - 1 { assert(l[j] == 32u8); }
    else if j < o2 + a.len() { assert(l[j] == a[j - o2]); }
    else if j == o3 - 1 { assert(l[j] == 32u8); }
    else if j < o3 + b.len() { assert(l[j] == b[j - o3]); }
    else if j == o4 - 1 { assert(l[j] == 32u8); }
    else if j < o4 + p.len() { assert(l[j] == p[j - o4]); }
    else if j == o5 - 1 { assert(l[j] == 32u8); }
    else if j < o5 + q.len() { assert(l[j] == q[j - o5]); }
    else if j == o6 { assert(l[j] == 13u8); }
    else { assert(l[j] == 10u8); }
    assert(l[o6] == 13u8 && l[o6 + 1] == 10u8);
}

/// the pieces of a proper prefix of a TCP line: the first i fields and a prefix g of the next one
#[verifier::rlimit(60)]
pub proof fn lemma_tcp_prefix_parts(kw: Seq<u8>, a: Seq<u8>, b: Seq<u8>, p: Seq<u8>, q: Seq<u8>, k: int) -> (r: (int, Seq<u8>))
    requires no_sep(kw), no_sep(a), no_sep(b), no_sep(p), no_sep(q), 0 <= k < tcp_line(kw, a, b, p, q).len()
    ensures ({
        let (i, g) = r;
        let fs = tcp_fields(kw, a, b, p, q);
        let w = tcp_line(kw, a, b, p, q).subrange(0, k);
        &&& 0 <= i <= 6
        &&& splitn_spec(w, 7) =~= fs.subrange(0, i) + seq![g]
        &&& (i < 6 ==> is_prefix_of(g, fs[i]))
        &&& (i == 6 ==> g.len() == 0)
        &&& (i == 0 ==> w =~= g)
        &&& (i == 1 ==> w =~= b_proxy() + seq![32u8] + g)
        &&& (i >= 1 ==> w.len() >= 6)
    }),
{
    lemma_keywords_no_sep();
    let fs = tcp_fields(kw, a, b, p, q);
    let cs = tcp_seps();
    let last = seq![10u8];
    lemma_tcp_line_is_join(kw, a, b, p, q);
    let l = tcp_line(kw, a, b, p, q);
    let (i, g) = lemma_prefix_decompose(fs, cs, last, k);
    let w = l.subrange(0, k);
    let fi = fs.subrange(0, i);
    let ci = cs.subrange(0, i);
    assert(all_no_sep(fs));
    assert(all_sep(cs));
    assert(all_no_sep(fi)) by { assert forall|j: int| 0 <= j < fi.len() implies no_sep(#[trigger] fi[j]) by { assert(fi[j] == fs[j]); } }
    assert(all_sep(ci)) by { assert forall|j: int| 0 <= j < ci.len() implies is_sep(#[trigger] ci[j]) by { assert(ci[j] == cs[j]); } }
    if i == 6 {
        // k < len, so at least one byte of the final LF is missing: g is empty
        assert(g.len() == 0);
    }
    let whole = if i < 6 { fs[i] } else { last };
    assert(no_sep(g)) by {
        assert forall|j: int| 0 <= j < g.len() implies !is_sep(#[trigger] g[j]) by {
            assert(whole.subrange(0, g.len() as int)[j] == whole[j]);
            if i < 6 { assert(no_sep(fs[i])); }
        }
    }
    lemma_split_join_prefix(fi, ci, g, 7);
    if i == 0 {
        assert(join_prefix(fi, ci, g) == g);
    } else {
        let f1 = fi.subrange(1, fi.len() as int);
        let c1 = ci.subrange(1, ci.len() as int);
        assert(fi[0] == b_proxy() && ci[0] == 32u8);
        assert(join_prefix(fi, ci, g) == b_proxy() + seq![32u8] + join_prefix(f1, c1, g));
        if i == 1 { assert(join_prefix(f1, c1, g) == g); }
    }
    (i, g)
}

/// case 0: the cut falls inside (or at the end of) `PROXY`
pub proof fn lemma_prefix_case0(w: Seq<u8>)
    requires splitn_spec(w, 7) =~= seq![w], is_prefix_of(w, b_proxy())
    ensures v1v_incomplete(line_verdict(w))
{
    if w.len() > 0 {
        assert(w.subrange(0, w.len() as int) =~= w);
        assert(is_suffix_of(w, w));
    }
}

/// case 1: the cut falls inside (or at the end of) the protocol keyword
#[verifier::rlimit(60)]
pub proof fn lemma_prefix_case1(w: Seq<u8>, g: Seq<u8>, kw: Seq<u8>)
    requires
        splitn_spec(w, 7) =~= seq![b_proxy(), g], w =~= b_proxy() + seq![32u8] + g,
        is_prefix_of(g, kw), kw =~= b_tcp4() || kw =~= b_tcp6() || kw =~= b_unknown(),
        from_kw_fields_ok(kw),
    ensures v1v_incomplete(line_verdict(w))
{
    let n = w.len() as int;
    let parts = splitn_spec(w, 7);
    assert(parts[0] =~= b_proxy() && parts[1] =~= g && parts.len() == 2);
    // not `Partial` on the keyword PROXY: the text is longer than PROXY and does not end with 'Y'
    assert(!is_suffix_of(b_proxy(), w)) by {
        if is_suffix_of(b_proxy(), w) {
            assert(w.subrange(n - 5, n)[4] == w[n - 1]);
            if g.len() == 0 { assert(w[n - 1] == 32u8); }
            else {
                assert(w[n - 1] == g[g.len() - 1]);
                assert(kw.subrange(0, g.len() as int)[g.len() - 1] == kw[g.len() - 1]);
            }
        }
    }
    assert(is_suffix_of(g, w)) by { assert(w.subrange(n - g.len(), n) =~= g); }
    assert(!is_suffix_of(b_crlf(), w)) by {
        if is_suffix_of(b_crlf(), w) {
            assert(w.subrange(n - 2, n)[1] == 10u8);
            assert(w[n - 1] == 10u8);
            if g.len() == 0 { assert(w[n - 1] == 32u8); }
            else { assert(w[n - 1] == g[g.len() - 1]); assert(kw.subrange(0, g.len() as int)[g.len() - 1] == kw[g.len() - 1]); }
        }
    }
    if g.len() > 0 && g.len() < kw.len() {
        // a proper prefix of a keyword is no keyword, and is a prefix of TCP4 or of UNKNOWN
        assert forall|j: int| 0 <= j < g.len() implies g[j] == kw[j] by { assert(kw.subrange(0, g.len() as int)[j] == kw[j]); }
        if kw =~= b_unknown() {
            assert(is_prefix_of(g, b_unknown()));
            assert(!(g =~= b_tcp4()) && !(g =~= b_tcp6())) by { assert(g[0] == 85u8); }
        } else {
            assert(g.len() <= 3);
            assert(is_prefix_of(g, b_tcp4())) by {
                assert forall|j: int| 0 <= j < g.len() implies b_tcp4().subrange(0, g.len() as int)[j] == g[j] by {}
            }
        }
    } else if g.len() == kw.len() && g.len() > 0 {
        assert(g =~= kw);
        if kw =~= b_tcp4() { assert(addr_fields_kind::<std::net::Ipv4Addr>(parts) == Some(V1K::MissingSourceAddress)); }
        else if kw =~= b_tcp6() {
            assert(!(g =~= b_tcp4())) by { assert(b_tcp6()[3] != b_tcp4()[3]); }
            assert(addr_fields_kind::<std::net::Ipv6Addr>(parts) == Some(V1K::MissingSourceAddress));
        } else {
            assert(!(g =~= b_tcp4()) && !(g =~= b_tcp6()));
        }
    }
}
pub open spec fn from_kw_fields_ok(kw: Seq<u8>) -> bool { true }

/// cases 2..6: `PROXY`, the keyword and between one and five further pieces
#[verifier::rlimit(60)]
pub proof fn lemma_prefix_case_fields(w: Seq<u8>, v4: bool, a: Seq<u8>, b: Seq<u8>, p: Seq<u8>, q: Seq<u8>, i: int, g: Seq<u8>)
    requires
        2 <= i <= 6,
        splitn_spec(w, 7) =~= tcp_fields(if v4 { b_tcp4() } else { b_tcp6() }, a, b, p, q).subrange(0, i) + seq![g],
        i < 6 ==> is_prefix_of(g, tcp_fields(if v4 { b_tcp4() } else { b_tcp6() }, a, b, p, q)[i]),
        i == 6 ==> g.len() == 0,
        v4 ==> from_str_spec::<std::net::Ipv4Addr>(a) is Ok && from_str_spec::<std::net::Ipv4Addr>(b) is Ok,
        !v4 ==> from_str_spec::<std::net::Ipv6Addr>(a) is Ok && from_str_spec::<std::net::Ipv6Addr>(b) is Ok,
        port_ok(p), port_ok(q),
        w.len() > 5, w.len() <= 107, w[w.len() - 1] != 89u8,
    ensures v1v_incomplete(line_verdict(w))
{
    let kw = if v4 { b_tcp4() } else { b_tcp6() };
    let fs = tcp_fields(kw, a, b, p, q);
    let parts = splitn_spec(w, 7);
    let n = w.len() as int;
    assert(parts.len() == i + 1);
    assert forall|j: int| 0 <= j < i implies parts[j] == fs[j] by { assert(fs.subrange(0, i)[j] == fs[j]); }
    assert(parts[i] == g);
    assert(parts[0] =~= b_proxy() && parts[1] =~= kw);
    assert(!is_suffix_of(b_proxy(), w)) by {
        if is_suffix_of(b_proxy(), w) { assert(w.subrange(n - 5, n)[4] == w[n - 1]); }
    }
    lemma_port_ok_field(p);
    if i >= 5 { assert(parts[4] == p); }
    if i == 5 && g.len() > 0 { lemma_port_prefix_ok(q, g); lemma_port_ok_field(g); }
    if i == 6 { lemma_port_ok_field(q); assert(parts[5] == q); assert(q.len() >= 1); }
    if v4 {
        if i >= 3 { assert(parts[2] == a); }
        if i >= 4 { assert(parts[3] == b); }
        assert(addr_fields_kind::<std::net::Ipv4Addr>(parts) matches Some(k) ==> v1k_incomplete(k));
        if addr_fields_kind::<std::net::Ipv4Addr>(parts) is None {
            assert(i >= 5);
            assert(tcp_tail_kind(w, parts) == Some(V1K::MissingNewLine));
        }
    } else {
        assert(!(kw =~= b_tcp4())) by { assert(b_tcp6()[3] != b_tcp4()[3]); }
        if i >= 3 { assert(parts[2] == a); }
        if i >= 4 { assert(parts[3] == b); }
        assert(addr_fields_kind::<std::net::Ipv6Addr>(parts) matches Some(k) ==> v1k_incomplete(k));
        if addr_fields_kind::<std::net::Ipv6Addr>(parts) is None {
            assert(i >= 5);
            assert(tcp_tail_kind(w, parts) == Some(V1K::MissingNewLine));
        }
    }
}

// [props: C05]
/// every proper prefix of a well-formed TCP line has an incomplete verdict and is not terminated
#[verifier::rlimit(60)]
pub proof fn lemma_c05_v1_tcp(v4: bool, a: Seq<u8>, b: Seq<u8>, p: Seq<u8>, q: Seq<u8>, k: int)
    requires
        v4 ==> from_str_spec::<std::net::Ipv4Addr>(a) is Ok && from_str_spec::<std::net::Ipv4Addr>(b) is Ok,
        !v4 ==> from_str_spec::<std::net::Ipv6Addr>(a) is Ok && from_str_spec::<std::net::Ipv6Addr>(b) is Ok,
        port_ok(p), port_ok(q),
        0 <= k < tcp_line(if v4 { b_tcp4() } else { b_tcp6() }, a, b, p, q).len(),
        tcp_line(if v4 { b_tcp4() } else { b_tcp6() }, a, b, p, q).len() <= 107,
    ensures
        v1v_incomplete(line_verdict(tcp_line(if v4 { b_tcp4() } else { b_tcp6() }, a, b, p, q).subrange(0, k))),
        !v1_terminated(tcp_line(if v4 { b_tcp4() } else { b_tcp6() }, a, b, p, q).subrange(0, k)),
{
    broadcast use crate::prelude::prelude_parse_axioms;
    broadcast use crate::prelude::prelude_str_axioms;
    let kw = if v4 { b_tcp4() } else { b_tcp6() };
    let l = tcp_line(kw, a, b, p, q);
    let w = l.subrange(0, k);
    lemma_keywords_no_sep();
    assert(addr_bytes(a) && addr_bytes(b));
    lemma_addr_plain(a); lemma_addr_plain(b); lemma_digits_plain(p); lemma_digits_plain(q);
    assert(plain_field(kw));
    let (i, g) = lemma_tcp_prefix_parts(kw, a, b, p, q, k);
    // no CR strictly inside the prefix
    lemma_first_index_bounds(w, 13u8);
    let c = first_index_of(w, 13u8);
    if c + 1 < w.len() {
        assert(w[c] == l[c]);
        lemma_line_bytes(kw, a, b, p, q, c);
    }
    if i == 0 {
        lemma_prefix_case0(w);
    } else if i == 1 {
        lemma_prefix_case1(w, g, kw);
    } else {
        lemma_line_bytes(kw, a, b, p, q, k - 1);
        assert(w[k - 1] == l[k - 1]);
        lemma_prefix_case_fields(w, v4, a, b, p, q, i, g);
    }
}

pub open spec fn unknown_head() -> Seq<u8> { b_proxy() + sp() + b_unknown() }

/// byte-level facts of a well-formed UNKNOWN line
pub proof fn lemma_unknown_bytes(l: Seq<u8>)
    requires unknown_line(l)
    ensures
        l.len() >= 15, l.subrange(0, 13) =~= unknown_head(), is_sep(l[13]),
        l[l.len() - 2] == 13u8, l[l.len() - 1] == 10u8,
        forall|j: int| 0 <= j < l.len() - 2 ==> #[trigger] l[j] != 13u8,
{
    let head = unknown_head();
    let n = l.len() as int;
    if l =~= head + b_crlf() {
        assert forall|j: int| 0 <= j < n - 2 implies #[trigger] l[j] != 13u8 by { assert(l[j] == head[j]); }
    } else {
        let t = choose|t: Seq<u8>| #![auto] l =~= head + sp() + t + b_crlf() && (forall|i: int| 0 <= i < t.len() ==> t[i] != 13u8);
        assert(l[13] == 32u8);
        assert forall|j: int| 0 <= j < n - 2 implies #[trigger] l[j] != 13u8 by {
            if j < 13 { assert(l[j] == head[j]); }
            else if j == 13 {}
            else { assert(l[j] == t[j - 14]); }
        }
    }
}

/// a cut inside `PROXY UNKNOWN`
#[verifier::rlimit(60)]
#[verifier::spinoff_prover]
pub proof fn lemma_unknown_prefix_head(w: Seq<u8>, k: int)
    requires 0 <= k <= 13, w =~= unknown_head().subrange(0, k)
    ensures v1v_incomplete(line_verdict(w))
{
    lemma_keywords_no_sep();
    let head = unknown_head();
    let fs = seq![b_proxy()];
    let cs = seq![32u8];
    assert(join_prefix(fs, cs, b_unknown()) == head) by {
        reveal_with_fuel(join_prefix, 3);
        assert(join_prefix(fs.subrange(1, 1), cs.subrange(1, 1), b_unknown()) == b_unknown());
    }
    let (i, g) = lemma_prefix_decompose(fs, cs, b_unknown(), k);
    let fi = fs.subrange(0, i); let ci = cs.subrange(0, i);
    assert(all_no_sep(fi)) by { assert forall|j: int| 0 <= j < fi.len() implies no_sep(#[trigger] fi[j]) by { assert(fi[j] == fs[j]); } }
    assert(all_sep(ci)) by { assert forall|j: int| 0 <= j < ci.len() implies is_sep(#[trigger] ci[j]) by { assert(ci[j] == cs[j]); } }
    let whole = if i < 1 { fs[i] } else { b_unknown() };
    assert(no_sep(g)) by {
        assert forall|j: int| 0 <= j < g.len() implies !is_sep(#[trigger] g[j]) by { assert(whole.subrange(0, g.len() as int)[j] == whole[j]); }
    }
    lemma_split_join_prefix(fi, ci, g, 7);
    if i == 0 {
        assert(join_prefix(fi, ci, g) == g);
        assert(splitn_spec(w, 7) =~= seq![w]);
        lemma_prefix_case0(w);
    } else {
        assert(fi[0] == b_proxy() && ci[0] == 32u8);
        assert(join_prefix(fi, ci, g) == b_proxy() + seq![32u8] + join_prefix(fi.subrange(1, 1), ci.subrange(1, 1), g));
        assert(join_prefix(fi.subrange(1, 1), ci.subrange(1, 1), g) == g);
        assert(fi + seq![g] =~= seq![b_proxy(), g]);
        lemma_prefix_case1(w, g, b_unknown());
    }
}

/// a cut after `PROXY UNKNOWN` and its separator: only the line ending matters
pub proof fn lemma_unknown_prefix_tail(w: Seq<u8>)
    requires w.len() >= 14, w.len() <= 107, w.subrange(0, 13) =~= unknown_head(), is_sep(w[13]), !is_suffix_of(b_crlf(), w)
    ensures v1v_incomplete(line_verdict(w))
{
    lemma_keywords_no_sep();
    let k = w.len() as int;
    let c1 = w[13];
    let rest = w.subrange(14, k);
    assert(w =~= b_proxy() + seq![32u8] + (b_unknown() + seq![c1] + rest)) by {
        assert forall|j: int| 0 <= j < 13 implies w[j] == unknown_head()[j] by { assert(w.subrange(0, 13)[j] == w[j]); }
    }
    lemma_split_cons(b_proxy(), 32u8, b_unknown() + seq![c1] + rest, 7);
    lemma_split_cons(b_unknown(), c1, rest, 6);
    lemma_split_len(rest, 5);
    let parts = splitn_spec(w, 7);
    assert(parts[0] =~= b_proxy() && parts[1] =~= b_unknown() && parts.len() >= 2);
    assert(!(parts[1] =~= b_tcp4()) && !(parts[1] =~= b_tcp6()));
}

// [props: C05]
/// every proper prefix of a well-formed UNKNOWN line has an incomplete verdict and is not terminated
#[verifier::rlimit(60)]
pub proof fn lemma_c05_v1_unknown(l: Seq<u8>, k: int)
    requires unknown_line(l), l.len() <= 107, 0 <= k < l.len()
    ensures v1v_incomplete(line_verdict(l.subrange(0, k))), !v1_terminated(l.subrange(0, k))
{
    broadcast use crate::prelude::prelude_str_axioms;
    let w = l.subrange(0, k);
    lemma_unknown_bytes(l);
    lemma_first_index_bounds(w, 13u8);
    let c = first_index_of(w, 13u8);
    if c + 1 < w.len() { assert(w[c] == l[c]); }
    if k <= 13 {
        assert(w =~= unknown_head().subrange(0, k)) by {
            assert forall|j: int| 0 <= j < k implies w[j] == unknown_head()[j] by { assert(l.subrange(0, 13)[j] == l[j]); }
        }
        lemma_unknown_prefix_head(w, k);
    } else {
        assert(w.subrange(0, 13) =~= l.subrange(0, 13));
        assert(w[13] == l[13]);
        assert(!is_suffix_of(b_crlf(), w)) by {
            if is_suffix_of(b_crlf(), w) {
                assert(w.subrange(k - 2, k)[0] == 13u8);
                assert(l[k - 2] == 13u8);
            }
        }
        lemma_unknown_prefix_tail(w);
    }
}

// [props: C05]
/// every proper prefix of a well-formed line - cut anywhere, also inside a multi-byte character of the text of an
/// UNKNOWN line - has an incomplete verdict and is its own window; the line's only CR is the one of its final CRLF
#[verifier::rlimit(60)]
pub proof fn lemma_c05_v1_core(l: Seq<u8>, a: V1Addresses, k: int)
    requires wf_line(l, a), 0 <= k < l.len()
    ensures v1v_incomplete(header_verdict(l.subrange(0, k))),
        v1_window(l.subrange(0, k)) =~= l.subrange(0, k),
        k > 0 ==> l[0] == 80u8,
        l.len() >= 2, first_index_of(l, 13u8) + 2 == l.len(), l[l.len() - 1] == 10u8,
{
    broadcast use crate::prelude::prelude_str_axioms;
    broadcast use crate::prelude::prelude_utf8_axioms;
    let w = l.subrange(0, k);
    lemma_first_index_bounds(l, 13u8);
    match a {
        V1Addresses::Unknown => { lemma_c05_v1_unknown(l, k); lemma_unknown_bytes(l); },
        V1Addresses::Tcp4(x) => {
            let (fa, fb, fp, fq) = choose|a: Seq<u8>, b: Seq<u8>, p: Seq<u8>, q: Seq<u8>| #![auto]
                l =~= tcp4_line(a, b, p, q)
                && ipv4_text(a) == Some(x.source_address) && ipv4_text(b) == Some(x.destination_address)
                && port_ok(p) && port_ok(q) && dec_value(p) == x.source_port && dec_value(q) == x.destination_port;
            assert(l == tcp_line(b_tcp4(), fa, fb, fp, fq));
            lemma_c05_v1_tcp(true, fa, fb, fp, fq, k);
            lemma_tcp_line_window(l, true, fa, fb, fp, fq);
            assert(l[l.len() - 1] == 10u8) by { assert(l =~= tcp4_line(fa, fb, fp, fq)); assert(b_crlf()[1] == 10u8); }
        },
        V1Addresses::Tcp6(x) => {
            let (fa, fb, fp, fq) = choose|a: Seq<u8>, b: Seq<u8>, p: Seq<u8>, q: Seq<u8>| #![auto]
                l =~= tcp6_line(a, b, p, q)
                && ipv6_text(a) == Some(x.source_address) && ipv6_text(b) == Some(x.destination_address)
                && port_ok(p) && port_ok(q) && dec_value(p) == x.source_port && dec_value(q) == x.destination_port;
            assert(l == tcp_line(b_tcp6(), fa, fb, fp, fq));
            lemma_c05_v1_tcp(false, fa, fb, fp, fq, k);
            lemma_tcp_line_window(l, false, fa, fb, fp, fq);
            assert(l[l.len() - 1] == 10u8) by { assert(l =~= tcp6_line(fa, fb, fp, fq)); assert(b_crlf()[1] == 10u8); }
        },
    }
    // the prefix is its own window: it has no CR except possibly as its last byte, and fewer than 107 bytes
    lemma_first_index_bounds(w, 13u8);
    assert(v1_window(w) =~= w);
}

// [props: C05]
/// C05 for the text entry point: every proper prefix of a well-formed line (US-ASCII, so every
/// prefix is valid UTF-8) is reported incomplete
#[verifier::rlimit(60)]
pub proof fn lemma_c05_v1(l: Seq<u8>, a: V1Addresses, k: int)
    requires wf_line(l, a), 0 <= k < l.len(), vstd::utf8::valid_utf8(l.subrange(0, k))
    ensures v1v_incomplete(entry_verdict_str(l.subrange(0, k))),
        v1_window(l.subrange(0, k)) =~= l.subrange(0, k),
        k > 0 ==> l[0] == 80u8,
{
    broadcast use crate::prelude::prelude_str_axioms;
    broadcast use crate::prelude::prelude_utf8_axioms;
    let w = l.subrange(0, k);
    lemma_c05_v1_core(l, a, k);
    assert(str_cut_ok(w, w.len() as int));
}
