// ======================================================================================
// C09 / C10 / C07 / C13: the builder as a state machine.  Every public Builder method is proved
// (on the real code) to perform one `b_step`; `build` is proved to return the started buffer
// with only the length bytes replaced by `b_len_field`.  The lemmas below are the induction
// over call histories and the round trip through the v2 acceptance condition.
// ======================================================================================

pub enum BOp {
    /// reserve_capacity(n)
    Reserve(nat),
    /// set_length(l)
    SetLength(Option<u16>),
    /// write_payload / write_tlv / one item of write_payloads, by its encoding
    Write(Seq<u8>),
}

pub open spec fn b_step(st: BState, op: BOp) -> BState {
    match op {
        BOp::Reserve(_) => st,
        BOp::SetLength(l) => BState { length: l, ..st },
        BOp::Write(e) => b_write(st, e),
    }
}

pub open spec fn b_run(st: BState, ops: Seq<BOp>) -> BState
    decreases ops.len()
{
    if ops.len() == 0 { st } else { b_run(b_step(st, ops[0]), ops.subrange(1, ops.len() as int)) }
}

/// the payload encodings of a history, concatenated in call order
pub open spec fn b_payloads(ops: Seq<BOp>) -> Seq<u8>
    decreases ops.len()
{
    if ops.len() == 0 { Seq::empty() } else {
        (match ops[0] { BOp::Write(e) => e, _ => Seq::empty() }) + b_payloads(ops.subrange(1, ops.len() as int))
    }
}

/// the explicit length in force after a history
pub open spec fn b_last_length(l0: Option<u16>, ops: Seq<BOp>) -> Option<u16>
    decreases ops.len()
{
    if ops.len() == 0 { l0 } else {
        b_last_length(match ops[0] { BOp::SetLength(l) => l, _ => l0 }, ops.subrange(1, ops.len() as int))
    }
}

/// invariant of every reachable state: once started, the buffer is the fixed part (with some
/// length bytes), the construction-time address block and the payloads written so far
pub open spec fn b_shape(st: BState, vc: u8, afp: u8, addr: V2Addresses, payloads: Seq<u8>) -> bool {
    st.vc == vc && st.afp == afp && st.addr == addr
    && match st.buf {
        None => payloads.len() == 0,
        Some(b) => b.len() == 16 + v2_addr_enc(addr).len() + payloads.len()
            && b.subrange(0, 12) =~= v2_sig() && b[12] == vc && b[13] == afp
            && b.subrange(16, b.len() as int) =~= v2_addr_enc(addr) + payloads,
    }
}

pub proof fn lemma_started_shape(st: BState, payloads: Seq<u8>)
    requires b_shape(st, st.vc, st.afp, st.addr, payloads)
    ensures b_shape(b_started(st), st.vc, st.afp, st.addr, payloads), b_started(st).buf is Some, b_wf(b_started(st)),
        b_started(st).length == st.length
{
    if st.buf is None {
        let f = b_fixed(st);
        let b = f + v2_addr_enc(st.addr);
        assert(f.len() == 16);
        assert(b.subrange(0, 12) =~= v2_sig());
        assert(b[12] == st.vc && b[13] == st.afp);
        assert(b.subrange(16, b.len() as int) =~= v2_addr_enc(st.addr) + payloads);
    }
}

// [props: C10 C09]
/// induction over call histories: the buffer is always fixed part + address block + payloads
/// in call order; control bytes and address value never change; reservations have no effect;
/// the length in force is the last one set
#[verifier::rlimit(60)]
pub proof fn lemma_run_shape(st: BState, ops: Seq<BOp>, payloads: Seq<u8>)
    requires b_shape(st, st.vc, st.afp, st.addr, payloads)
    ensures
        b_shape(b_run(st, ops), st.vc, st.afp, st.addr, payloads + b_payloads(ops)),
        b_run(st, ops).length == b_last_length(st.length, ops),
    decreases ops.len()
{
    if ops.len() == 0 {
        assert(payloads + b_payloads(ops) =~= payloads);
    } else {
        let op = ops[0];
        let rest = ops.subrange(1, ops.len() as int);
        let st1 = b_step(st, op);
        match op {
            BOp::Write(e) => {
                lemma_started_shape(st, payloads);
                let s = b_started(st);
                let b = s.buf->Some_0;
                let b1 = b + e;
                assert(b1.subrange(0, 12) =~= b.subrange(0, 12));
                assert(b1.subrange(16, b1.len() as int) =~= v2_addr_enc(st.addr) + (payloads + e)) by {
                    assert(b.subrange(16, b.len() as int) =~= v2_addr_enc(st.addr) + payloads);
                    assert forall|j: int| 0 <= j < b1.len() - 16 implies
                        b1.subrange(16, b1.len() as int)[j] == (v2_addr_enc(st.addr) + (payloads + e))[j] by {
                        if j < b.len() - 16 { assert(b.subrange(16, b.len() as int)[j] == b[j + 16]); }
                    }
                }
                lemma_run_shape(st1, rest, payloads + e);
                assert((payloads + e) + b_payloads(rest) =~= payloads + b_payloads(ops));
            },
            BOp::Reserve(_) => {
                lemma_run_shape(st1, rest, payloads);
                assert(payloads + b_payloads(rest) =~= payloads + b_payloads(ops)) by {
                    assert(b_payloads(ops) =~= Seq::<u8>::empty() + b_payloads(rest));
                }
            },
            BOp::SetLength(_) => {
                lemma_run_shape(st1, rest, payloads);
                assert(payloads + b_payloads(rest) =~= payloads + b_payloads(ops)) by {
                    assert(b_payloads(ops) =~= Seq::<u8>::empty() + b_payloads(rest));
                }
            },
        }
    }
}

/// the wire form of a v2 header
pub open spec fn v2_wire(vc: u8, afp: u8, len: int, body: Seq<u8>) -> Seq<u8> {
    v2_sig() + seq![vc, afp] + be16_bytes(len) + body
}

// [props: C09 C10]
/// what `build` returns after any history that started from a constructor: the signature, the
/// two control bytes as given, the length in force (else the actual payload size), the
/// construction-time address block and the payloads in call order -- nothing else
#[verifier::rlimit(60)]
pub proof fn lemma_build_history(st0: BState, ops: Seq<BOp>, v: Seq<u8>)
    requires
        st0.buf is None,
        ({ let st = b_run(st0, ops);
           b_same_except_len(b_started(st).buf->Some_0, v) && v.len() >= 16 && be16(v[14], v[15]) == b_len_field(st) }),
    ensures
        ({ let body = v2_addr_enc(st0.addr) + b_payloads(ops);
           let len = match b_last_length(st0.length, ops) { Some(l) => l as int, None => body.len() as int };
           v =~= v2_wire(st0.vc, st0.afp, len, body) }),
{
    let e = Seq::<u8>::empty();
    assert(b_shape(st0, st0.vc, st0.afp, st0.addr, e));
    lemma_run_shape(st0, ops, e);
    let st = b_run(st0, ops);
    assert(e + b_payloads(ops) =~= b_payloads(ops));
    lemma_started_shape(st, b_payloads(ops));
    let b = b_started(st).buf->Some_0;
    let body = v2_addr_enc(st0.addr) + b_payloads(ops);
    let len = match b_last_length(st0.length, ops) { Some(l) => l as int, None => body.len() as int };
    assert(b_len_field(st) == len);
    let w = v2_wire(st0.vc, st0.afp, len, body);
    assert(w.len() == v.len());
    assert(0 <= len <= 65535 ==> (be16_bytes(len)[0] as int == len / 256 && be16_bytes(len)[1] as int == len % 256));
    assert forall|i: int| 0 <= i < v.len() implies v[i] == w[i] by {
        if i < 12 { assert(b.subrange(0, 12)[i] == b[i]); }
        else if i == 12 || i == 13 {}
        else if i == 14 || i == 15 {
            lemma_be16_range(v[14], v[15]);
        }
        else { assert(b.subrange(16, b.len() as int)[i - 16] == b[i]); }
    }
}

// [props: C10]
/// a batch write equals the successive single writes of its items
pub proof fn lemma_write_concat(st: BState, a: Seq<u8>, b: Seq<u8>)
    ensures b_eq(b_write(b_write(st, a), b), b_write(st, a + b))
{
    let s = b_started(st);
    assert(b_started(b_write(st, a)) == b_write(st, a));
    assert((s.buf->Some_0 + a) + b =~= s.buf->Some_0 + (a + b));
}

// ---- C07: the built header is the wire encoding and parses back ---------------------------------
pub proof fn lemma_nibbles()
    ensures
        forall|c: u8| #![auto] (c == 0u8 || c == 1u8) ==> hi_nib(0x20u8 | c) == 0x20u8 && lo_nib(0x20u8 | c) == c,
        forall|f: u8, p: u8| #![auto] fam_valid(f) && proto_valid(p) ==> hi_nib(f | p) == f && lo_nib(f | p) == p,
        forall|b: u8| #![auto] (hi_nib(b) | lo_nib(b)) == b,
{
    assert forall|c: u8| #![auto] (c == 0u8 || c == 1u8) implies hi_nib(0x20u8 | c) == 0x20u8 && lo_nib(0x20u8 | c) == c by {
        assert((c == 0u8 || c == 1u8) ==> ((0x20u8 | c) & 0xF0u8 == 0x20u8 && (0x20u8 | c) & 0x0Fu8 == c)) by(bit_vector);
    }
    assert forall|f: u8, p: u8| #![auto] fam_valid(f) && proto_valid(p) implies hi_nib(f | p) == f && lo_nib(f | p) == p by {
        assert((f == 0x00u8 || f == 0x10u8 || f == 0x20u8 || f == 0x30u8) && (p == 0u8 || p == 1u8 || p == 2u8)
            ==> ((f | p) & 0xF0u8 == f && (f | p) & 0x0Fu8 == p)) by(bit_vector);
    }
    assert forall|b: u8| #![auto] (hi_nib(b) | lo_nib(b)) == b by {
        assert(((b & 0xF0u8) | (b & 0x0Fu8)) == b) by(bit_vector);
    }
}

/// the encoding of an address value decodes to the same value
pub proof fn lemma_addr_roundtrip(a: V2Addresses)
    ensures
        v2_addr_enc(a).len() == fam_size(fam_code(v2_family_of_addresses(a))),
        v2_addr_matches(a, fam_code(v2_family_of_addresses(a)), v2_addr_enc(a)),
{
    broadcast use crate::prelude::prelude_axioms;
    match a {
        V2Addresses::Unspecified => {},
        V2Addresses::IPv4(x) => {
            let b = v2_addr_enc(a);
            assert(b.subrange(0, 4) =~= v4_octets(x.source_address));
            assert(b.subrange(4, 8) =~= v4_octets(x.destination_address));
            assert(be16(b[8], b[9]) == x.source_port as int);
            assert(be16(b[10], b[11]) == x.destination_port as int);
        },
        V2Addresses::IPv6(x) => {
            let b = v2_addr_enc(a);
            assert(b.subrange(0, 16) =~= v6_octets(x.source_address));
            assert(b.subrange(16, 32) =~= v6_octets(x.destination_address));
            assert(be16(b[32], b[33]) == x.source_port as int);
            assert(be16(b[34], b[35]) == x.destination_port as int);
        },
        V2Addresses::Unix(x) => {
            let b = v2_addr_enc(a);
            assert(b.subrange(0, 108) =~= x.source@);
            assert(b.subrange(108, 216) =~= x.destination@);
        },
    }
}

// [props: C07]
/// for every command, transport, address value and TLV list whose encoding fits in 65535
/// bytes, the wire form is accepted by the v2 acceptance condition with the same command,
/// transport, family and addresses, reports exactly its own bytes, and -- when a family is
/// specified -- its TLV section walks back to the same TLVs in order
#[verifier::rlimit(60)]
pub proof fn lemma_c07_roundtrip(cmd: Command, proto: Protocol, a: V2Addresses, tlvs: Seq<(u8, Seq<u8>)>, r: Result<V2Header, V2Error>)
    requires
        tlv_list_ok(tlvs),
        v2_addr_enc(a).len() + tlv_list_enc(tlvs).len() <= 65535,
        ({ let body = v2_addr_enc(a) + tlv_list_enc(tlvs);
           c02_post(v2_wire(0x20u8 | cmd_code(cmd), fam_code(v2_family_of_addresses(a)) | proto_code(proto), body.len() as int, body), r) }),
    ensures
        ({ let body = v2_addr_enc(a) + tlv_list_enc(tlvs);
           let w = v2_wire(0x20u8 | cmd_code(cmd), fam_code(v2_family_of_addresses(a)) | proto_code(proto), body.len() as int, body);
           &&& r matches Ok(h)
           &&& h.header@ =~= w && h.command == cmd && h.protocol == proto && h.addresses == a
           &&& (!(a is Unspecified) ==> tlv_walk(w.subrange(v2_addr_end(w), w.len() as int), 0) =~= tlv_list_items(tlvs)) }),
{
    let f = fam_code(v2_family_of_addresses(a));
    let body = v2_addr_enc(a) + tlv_list_enc(tlvs);
    let vc = 0x20u8 | cmd_code(cmd);
    let afp = f | proto_code(proto);
    let w = v2_wire(vc, afp, body.len() as int, body);
    lemma_nibbles();
    lemma_addr_roundtrip(a);
    assert(w.subrange(0, 12) =~= v2_sig());
    assert(w[12] == vc && w[13] == afp);
    let n = body.len() as int;
    assert(w[14] as int == n / 256 && w[15] as int == n % 256);
    assert(v2_declared_len(w) == n);
    assert(hi_nib(vc) == 0x20u8 && lo_nib(vc) == cmd_code(cmd));
    assert(hi_nib(afp) == f && lo_nib(afp) == proto_code(proto));
    assert(v2_accepts(w));
    let h = r->Ok_0;
    assert(w.subrange(0, v2_total(w)) =~= w);
    assert(w.subrange(16, 16 + fam_size(f)) =~= v2_addr_enc(a));
    lemma_addr_unique(h.addresses, a, f, v2_addr_enc(a));
    if !(a is Unspecified) {
        let sec = w.subrange(v2_addr_end(w), w.len() as int);
        assert(sec =~= tlv_list_enc(tlvs));
        lemma_walk_of_encoding(Seq::<u8>::empty(), tlvs);
        assert(Seq::<u8>::empty() + tlv_list_enc(tlvs) =~= tlv_list_enc(tlvs));
    }
}

// [props: C13]
/// re-encoding an accepted header from its control bytes, address bytes and TLV section (raw)
/// reproduces it byte for byte
pub proof fn lemma_c13_raw(s: Seq<u8>)
    requires v2_accepts(s), s.len() == v2_total(s)
    ensures
        ({ let ab = s.subrange(16, v2_addr_end(s)); let tb = s.subrange(v2_addr_end(s), s.len() as int);
           v2_wire(s[12], s[13], (ab + tb).len() as int, ab + tb) =~= s }),
{
    lemma_c14_partition(s);
    let ab = s.subrange(16, v2_addr_end(s)); let tb = s.subrange(v2_addr_end(s), s.len() as int);
    let n = (ab + tb).len() as int;
    assert(n == v2_declared_len(s));
    assert(s.subrange(0, 12) =~= v2_sig());
    lemma_be16_range(s[14], s[15]);
    assert(be16_bytes(n) =~= seq![s[14], s[15]]);
    let w = v2_wire(s[12], s[13], n, ab + tb);
    assert(w.len() == s.len());
    assert forall|i: int| 0 <= i < s.len() implies w[i] == s[i] by {
        if i < 12 { assert(s.subrange(0, 12)[i] == s[i]); }
    }
}

/// a decoded address value re-encodes to the bytes it was decoded from
pub proof fn lemma_enc_of_decoded_v4(a: V2Addresses, ab: Seq<u8>)
    requires v2_addr_matches(a, 0x10u8, ab), ab.len() == 12
    ensures v2_addr_enc(a) =~= ab
{
    broadcast use crate::prelude::prelude_axioms;
    let x = a->IPv4_0;
    assert(ab.subrange(0, 4) =~= v4_octets(x.source_address));
    assert(ab.subrange(4, 8) =~= v4_octets(x.destination_address));
    lemma_be16_range(ab[8], ab[9]); lemma_be16_range(ab[10], ab[11]);
    assert(be16_bytes(x.source_port as int) =~= seq![ab[8], ab[9]]);
    assert(be16_bytes(x.destination_port as int) =~= seq![ab[10], ab[11]]);
    let e = v2_addr_enc(a);
    assert(e.len() == 12);
    assert forall|i: int| 0 <= i < 12 implies e[i] == ab[i] by {
        if i < 4 { assert(ab.subrange(0, 4)[i] == ab[i]); }
        else if i < 8 { assert(ab.subrange(4, 8)[i - 4] == ab[i]); }
    }
}
pub proof fn lemma_enc_of_decoded_v6(a: V2Addresses, ab: Seq<u8>)
    requires v2_addr_matches(a, 0x20u8, ab), ab.len() == 36
    ensures v2_addr_enc(a) =~= ab
{
    broadcast use crate::prelude::prelude_axioms;
    let x = a->IPv6_0;
    assert(ab.subrange(0, 16) =~= v6_octets(x.source_address));
    assert(ab.subrange(16, 32) =~= v6_octets(x.destination_address));
    lemma_be16_range(ab[32], ab[33]); lemma_be16_range(ab[34], ab[35]);
    assert(be16_bytes(x.source_port as int) =~= seq![ab[32], ab[33]]);
    assert(be16_bytes(x.destination_port as int) =~= seq![ab[34], ab[35]]);
    let e = v2_addr_enc(a);
    assert(e.len() == 36);
    assert forall|i: int| 0 <= i < 36 implies e[i] == ab[i] by {
        if i < 16 { assert(ab.subrange(0, 16)[i] == ab[i]); }
        else if i < 32 { assert(ab.subrange(16, 32)[i - 16] == ab[i]); }
    }
}
pub proof fn lemma_enc_of_decoded_unix(a: V2Addresses, ab: Seq<u8>)
    requires v2_addr_matches(a, 0x30u8, ab), ab.len() == 216
    ensures v2_addr_enc(a) =~= ab
{
    let x = a->Unix_0;
    assert(ab.subrange(0, 108) =~= x.source@);
    assert(ab.subrange(108, 216) =~= x.destination@);
    let e = v2_addr_enc(a);
    assert(e.len() == 216);
    assert forall|i: int| 0 <= i < 216 implies e[i] == ab[i] by {
        if i < 108 { assert(ab.subrange(0, 108)[i] == ab[i]); }
        else { assert(ab.subrange(108, 216)[i - 108] == ab[i]); }
    }
}

// [props: C13]
/// ... and so does rebuilding from the decoded address value (family specified) with the
/// control bytes recomposed from the decoded command / transport / family
pub proof fn lemma_c13_decoded(s: Seq<u8>, h: V2Header)
    requires v2_accepts(s), s.len() == v2_total(s), v2_decoded(h, s), hi_nib(s[13]) != 0x00u8
    ensures
        ({ let tb = s.subrange(v2_addr_end(s), s.len() as int);
           let body = v2_addr_enc(h.addresses) + tb;
           v2_wire(0x20u8 | cmd_code(h.command), fam_code(v2_family_of_addresses(h.addresses)) | proto_code(h.protocol), body.len() as int, body) =~= s }),
{
    lemma_nibbles();
    lemma_c13_raw(s);
    let f = hi_nib(s[13]);
    let ab = s.subrange(16, 16 + fam_size(f));
    if f == 0x10u8 { lemma_enc_of_decoded_v4(h.addresses, ab); }
    else if f == 0x20u8 { lemma_enc_of_decoded_v6(h.addresses, ab); }
    else { lemma_enc_of_decoded_unix(h.addresses, ab); }
    assert(v2_addr_enc(h.addresses) == ab);
    assert(fam_code(v2_family_of_addresses(h.addresses)) == f);
    assert((0x20u8 | cmd_code(h.command)) == s[12]) by {
        assert(hi_nib(s[12]) == 0x20u8);
        assert(cmd_code(h.command) == lo_nib(s[12]));
    }
    assert((f | proto_code(h.protocol)) == s[13]) by {
        assert(proto_code(h.protocol) == lo_nib(s[13]));
    }
}

// [props: C20]
/// a TLV and the equivalent (type, bytes) pair have the same encoding; integers are written
/// big-endian at their natural width (be_int), a single byte for u8/i8
pub proof fn lemma_c20_encodings(kind: u8, value: Seq<u8>, x: u8)
    ensures
        tlv_enc(kind, value).len() == 3 + value.len(),
        tlv_enc(kind, value)[0] == kind,
        be_int(x as int, 1) =~= seq![x],
{
    reveal_with_fuel(be_nat, 3);
    assert(be_nat(x as nat, 1) =~= seq![x]);
}

// ======================================================================================
// C07 composed: constructor + one write per TLV + build + parse
// ======================================================================================

/// the history "write every TLV of the list, in order"
pub open spec fn tlv_writes(l: Seq<(u8, Seq<u8>)>) -> Seq<BOp>
    decreases l.len()
{
    if l.len() == 0 { Seq::empty() } else { seq![BOp::Write(tlv_enc(l[0].0, l[0].1))] + tlv_writes(l.subrange(1, l.len() as int)) }
}

// [props: C07]
/// its payloads are the encoding of the list; it sets no length
pub proof fn lemma_tlv_writes(l: Seq<(u8, Seq<u8>)>, l0: Option<u16>)
    ensures b_payloads(tlv_writes(l)) =~= tlv_list_enc(l), b_last_length(l0, tlv_writes(l)) == l0
    decreases l.len()
{
    if l.len() > 0 {
        let rest = l.subrange(1, l.len() as int);
        lemma_tlv_writes(rest, l0);
        let ops = tlv_writes(l);
        assert(ops[0] == BOp::Write(tlv_enc(l[0].0, l[0].1)));
        assert(ops.subrange(1, ops.len() as int) =~= tlv_writes(rest));
    }
}

// [props: C07]
/// C07 end to end over the contracts proved on the real code: `Builder::with_addresses(version 2 | cmd, proto, a)`
/// (state `st0`), one write per TLV (`b_run` - each `write_tlv` / `write_payload` is proved to perform one `b_step`),
/// `build` (its two postconditions), then `v2::Header::try_from` (`c02_post`): the bytes are the wire encoding and
/// parse back to the same command, transport, addresses and - when a family is specified - TLV sequence
pub proof fn lemma_c07_composed(cmd: Command, proto: Protocol, a: V2Addresses, tlvs: Seq<(u8, Seq<u8>)>, v: Seq<u8>, r: Result<V2Header, V2Error>)
    requires
        tlv_list_ok(tlvs),
        v2_addr_enc(a).len() + tlv_list_enc(tlvs).len() <= 65535,
        ({ let st0 = BState { buf: None, vc: 0x20u8 | cmd_code(cmd), afp: fam_code(v2_family_of_addresses(a)) | proto_code(proto), addr: a, length: None };
           let st = b_run(st0, tlv_writes(tlvs));
           b_same_except_len(b_started(st).buf->Some_0, v) && v.len() >= 16 && be16(v[14], v[15]) == b_len_field(st) }),
        c02_post(v, r),
    ensures
        ({ let body = v2_addr_enc(a) + tlv_list_enc(tlvs);
           let w = v2_wire(0x20u8 | cmd_code(cmd), fam_code(v2_family_of_addresses(a)) | proto_code(proto), body.len() as int, body);
           &&& v =~= w
           &&& r matches Ok(h)
           &&& h.header@ =~= w && h.command == cmd && h.protocol == proto && h.addresses == a
           &&& (!(a is Unspecified) ==> tlv_walk(w.subrange(v2_addr_end(w), w.len() as int), 0) =~= tlv_list_items(tlvs)) }),
{
    let st0 = BState { buf: None, vc: 0x20u8 | cmd_code(cmd), afp: fam_code(v2_family_of_addresses(a)) | proto_code(proto), addr: a, length: None };
    lemma_tlv_writes(tlvs, None);
    lemma_build_history(st0, tlv_writes(tlvs), v);
    let body = v2_addr_enc(a) + tlv_list_enc(tlvs);
    assert(v2_addr_enc(a) + b_payloads(tlv_writes(tlvs)) =~= body);
    lemma_c07_roundtrip(cmd, proto, a, tlvs, r);
}
