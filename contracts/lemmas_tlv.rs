// ======================================================================================
// C11 / C03 / C07 / C13: properties of the standard TLV walk.  `TypeLengthValues::next` is
// proved (on the real code) to perform exactly one `tlv_step`; `tlv_walk` is the iteration of
// `tlv_step`, so these lemmas describe what a client that calls `next` repeatedly observes.
// ======================================================================================

pub open spec fn tlv_item_is_error(it: TlvItem) -> bool { it is Short || it is Overrun }

/// bytes occupied by a complete item
pub open spec fn tlv_item_bytes(it: TlvItem) -> Seq<u8> {
    match it { TlvItem::Tlv { kind, value } => tlv_enc(kind, value), _ => Seq::empty() }
}

pub open spec fn tlv_concat(items: Seq<TlvItem>) -> Seq<u8>
    decreases items.len()
{
    if items.len() == 0 { Seq::empty() } else { tlv_item_bytes(items[0]) + tlv_concat(items.subrange(1, items.len() as int)) }
}

// [props: C11 C03]
/// one step either ends the walk (None), yields an error and jumps to the end of the
/// section, or yields a complete item and advances by exactly 3 + length
pub proof fn lemma_tlv_step_shape(s: Seq<u8>, off: int)
    requires 0 <= off <= s.len()
    ensures
        tlv_step(s, off) is None <==> off == s.len(),
        tlv_step(s, off) matches Some((it, next)) ==> off < next <= s.len()
            && (tlv_item_is_error(it) ==> next == s.len())
            && (it matches TlvItem::Tlv { kind, value } ==> next == off + 3 + value.len() && value.len() <= 65535
                    && value =~= s.subrange(off + 3, next) && kind == s[off]
                    && s.subrange(off, next) =~= tlv_enc(kind, value)),
{
    if off < s.len() && s.len() - off >= 3 {
        let d = be16(s[off + 1], s[off + 2]);
        if s.len() - off >= 3 + d {
            let v = s.subrange(off + 3, off + 3 + d);
            assert(be16_bytes(d) =~= seq![s[off + 1], s[off + 2]]) by {
                assert(d / 256 == s[off + 1] as int && d % 256 == s[off + 2] as int);
            }
            assert(s.subrange(off, off + 3 + d) =~= tlv_enc(s[off], v));
        }
    }
}

// [props: C03 C11]
/// iterating a section of n bytes ends after at most n/3 + 1 items
pub proof fn lemma_walk_len(s: Seq<u8>, off: int)
    requires 0 <= off <= s.len()
    ensures tlv_walk(s, off).len() <= (s.len() - off) / 3 + 1
    decreases s.len() - off
{
    lemma_tlv_step_shape(s, off);
    match tlv_step(s, off) {
        None => {},
        Some((item, next)) => {
            if next > off {
                lemma_walk_len(s, next);
                if tlv_item_is_error(item) {
                    // next == s.len(): the rest of the walk is empty
                    lemma_tlv_step_shape(s, next);
                    assert(tlv_walk(s, next).len() == 0);
                }
            }
        }
    }
}

// [props: C11]
/// at most one error item and it is the last one; after it (and after the end) nothing follows
pub proof fn lemma_walk_error_last(s: Seq<u8>, off: int, i: int)
    requires 0 <= off <= s.len(), 0 <= i < tlv_walk(s, off).len(), tlv_item_is_error(tlv_walk(s, off)[i])
    ensures i == tlv_walk(s, off).len() - 1
    decreases s.len() - off
{
    lemma_tlv_step_shape(s, off);
    match tlv_step(s, off) {
        None => {},
        Some((item, next)) => {
            let rest = tlv_walk(s, next);
            assert(tlv_walk(s, off) =~= seq![item] + rest);
            if i == 0 {
                lemma_tlv_step_shape(s, next);
                assert(rest.len() == 0);
            } else {
                assert(tlv_walk(s, off)[i] == rest[i - 1]);
                lemma_walk_error_last(s, next, i - 1);
            }
        }
    }
}

// [props: C11]
/// the complete items tile the section from its start: their encodings, concatenated, are a
/// prefix of the section, and the whole section when the walk has no error item
pub proof fn lemma_walk_tiles(s: Seq<u8>, off: int)
    requires 0 <= off <= s.len()
    ensures
        is_prefix_of(tlv_concat(tlv_walk(s, off)), s.subrange(off, s.len() as int)),
        (forall|i: int| 0 <= i < tlv_walk(s, off).len() ==> !tlv_item_is_error(#[trigger] tlv_walk(s, off)[i]))
            ==> tlv_concat(tlv_walk(s, off)) =~= s.subrange(off, s.len() as int),
    decreases s.len() - off
{
    lemma_tlv_step_shape(s, off);
    let w = tlv_walk(s, off);
    match tlv_step(s, off) {
        None => {
            assert(w.len() == 0);
        },
        Some((item, next)) => {
            let rest = tlv_walk(s, next);
            assert(w =~= seq![item] + rest);
            assert(w.subrange(1, w.len() as int) =~= rest);
            lemma_walk_tiles(s, next);
            let tail = s.subrange(off, s.len() as int);
            if tlv_item_is_error(item) {
                lemma_tlv_step_shape(s, next);
                assert(rest.len() == 0);
                assert(tlv_concat(rest) =~= Seq::<u8>::empty());
                assert(tlv_concat(w) =~= Seq::<u8>::empty());
                assert(w[0] == item);
            } else {
                let e = tlv_item_bytes(item);
                assert(e =~= s.subrange(off, next));
                assert(tlv_concat(w) =~= e + tlv_concat(rest));
                let c = tlv_concat(rest);
                let rtail = s.subrange(next, s.len() as int);
                assert(rtail.subrange(0, c.len() as int) =~= c);
                assert(tail.subrange(0, (e + c).len() as int) =~= e + c) by {
                    assert forall|j: int| 0 <= j < (e + c).len() implies tail[j] == (e + c)[j] by {
                        if j >= e.len() {
                            assert(rtail.subrange(0, c.len() as int)[j - e.len()] == c[j - e.len()]);
                        }
                    }
                }
                if forall|i: int| 0 <= i < w.len() ==> !tlv_item_is_error(#[trigger] w[i]) {
                    assert forall|i: int| 0 <= i < rest.len() implies !tlv_item_is_error(#[trigger] rest[i]) by {
                        assert(rest[i] == w[i + 1]);
                    }
                    assert(c =~= rtail);
                    assert(e + c =~= tail);
                }
            }
        }
    }
}

/// a list of (type, value) pairs, each value at most 65535 bytes
pub open spec fn tlv_list_ok(l: Seq<(u8, Seq<u8>)>) -> bool {
    forall|i: int| 0 <= i < l.len() ==> (#[trigger] l[i]).1.len() <= 65535
}
pub open spec fn tlv_list_enc(l: Seq<(u8, Seq<u8>)>) -> Seq<u8>
    decreases l.len()
{
    if l.len() == 0 { Seq::empty() } else { tlv_enc(l[0].0, l[0].1) + tlv_list_enc(l.subrange(1, l.len() as int)) }
}
pub open spec fn tlv_list_items(l: Seq<(u8, Seq<u8>)>) -> Seq<TlvItem> {
    Seq::new(l.len(), |i: int| TlvItem::Tlv { kind: l[i].0, value: l[i].1 })
}

// [props: C07 C13]
/// walking the concatenated encodings of a TLV list (placed after any prefix) yields exactly
/// those TLVs, in order, and nothing else
#[verifier::rlimit(60)]
pub proof fn lemma_walk_of_encoding(pre: Seq<u8>, l: Seq<(u8, Seq<u8>)>)
    requires tlv_list_ok(l)
    ensures tlv_walk(pre + tlv_list_enc(l), pre.len() as int) =~= tlv_list_items(l)
    decreases l.len()
{
    let s = pre + tlv_list_enc(l);
    let off = pre.len() as int;
    if l.len() == 0 {
        assert(tlv_list_enc(l) =~= Seq::<u8>::empty());
        assert(s =~= pre);
    } else {
        let k = l[0].0; let v = l[0].1;
        let e = tlv_enc(k, v);
        let rest = l.subrange(1, l.len() as int);
        assert(tlv_list_ok(rest)) by {
            assert forall|i: int| 0 <= i < rest.len() implies (#[trigger] rest[i]).1.len() <= 65535 by { assert(rest[i] == l[i + 1]); }
        }
        assert(tlv_list_enc(l) =~= e + tlv_list_enc(rest));
        assert(s =~= (pre + e) + tlv_list_enc(rest));
        lemma_walk_of_encoding(pre + e, rest);
        // the first step reads exactly (k, v)
        assert(e.len() == 3 + v.len());
        assert(s[off] == k);
        assert(s[off + 1] as int == v.len() / 256 && s[off + 2] as int == v.len() % 256) by {
            assert(e[1] == (v.len() as int / 256) as u8 && e[2] == (v.len() as int % 256) as u8);
            assert(s[off + 1] == e[1] && s[off + 2] == e[2]);
        }
        assert(be16(s[off + 1], s[off + 2]) == v.len());
        assert(s.subrange(off + 3, off + 3 + v.len()) =~= v);
        assert(tlv_step(s, off) == Some((TlvItem::Tlv { kind: k, value: v }, off + 3 + v.len())));
        assert((pre + e).len() == off + 3 + v.len());
        assert(tlv_walk(s, off) =~= seq![TlvItem::Tlv { kind: k, value: v }] + tlv_walk(s, off + 3 + v.len()));
        assert(tlv_list_items(l) =~= seq![TlvItem::Tlv { kind: k, value: v }] + tlv_list_items(rest));
    }
}
