// ======================================================================================
// PROXY protocol v1 (text): specification functions over the BYTES of the input.
// ======================================================================================
pub use crate::v1::Addresses as V1Addresses;
pub use crate::v1::Header as V1Header;
pub use crate::v1::ParseError as V1Error;
pub use crate::v1::BinaryParseError as V1BinError;

pub open spec fn b_proxy() -> Seq<u8> { seq![80u8, 82u8, 79u8, 88u8, 89u8] }            // "PROXY"
pub open spec fn b_tcp4() -> Seq<u8> { seq![84u8, 67u8, 80u8, 52u8] }                   // "TCP4"
pub open spec fn b_tcp6() -> Seq<u8> { seq![84u8, 67u8, 80u8, 54u8] }                   // "TCP6"
pub open spec fn b_unknown() -> Seq<u8> { seq![85u8, 78u8, 75u8, 78u8, 79u8, 87u8, 78u8] } // "UNKNOWN"
pub open spec fn b_crlf() -> Seq<u8> { seq![13u8, 10u8] }

pub open spec fn v1_protocol_bytes(a: V1Addresses) -> Seq<u8> {
    match a { V1Addresses::Tcp4(_) => b_tcp4(), V1Addresses::Tcp6(_) => b_tcp6(), V1Addresses::Unknown => b_unknown() }
}

/// [C15] the text between the protocol keyword and the CRLF, one separating space removed
pub open spec fn v1_addresses_text(h: Seq<u8>, a: V1Addresses) -> Seq<u8> {
    let start = 5 + 1 + v1_protocol_bytes(a).len();
    let end = h.len() - 2;
    let t = h.subrange(start as int, end as int);
    if t.len() > 0 && t[0] == 32u8 { t.subrange(1, t.len() as int) } else { t }
}

/// shape of a line with an accepting verdict (lemma_accept_shape)
pub open spec fn v1_accept_shape(w: Seq<u8>, a: V1Addresses) -> bool { v1_accept_shape0(w, a) && w.len() <= 107 }
/// the shape without the length limit (what the accessors and C04 / C15 rely on)
pub open spec fn v1_accept_shape0(w: Seq<u8>, a: V1Addresses) -> bool {
    let p = v1_protocol_bytes(a);
    w.len() >= 6 + p.len() + 2
    && w.subrange(0, 5) =~= b_proxy() && is_sep(w[5])
    && w.subrange(6, 6 + p.len() as int) =~= p && is_sep(w[6 + p.len() as int])
    && is_suffix_of(b_crlf(), w)
}

/// what the v1 accessors need in order not to panic (C03): room for `PROXY <protocol>` and the
/// CRLF, with one-byte characters at the two cut points
pub open spec fn v1_header_safe(h: V1Header) -> bool {
    let s = cow_str_bytes(h.header);
    let p = v1_protocol_bytes(h.addresses);
    s.len() >= 6 + p.len() + 2 && s[6 + p.len() as int] < 128 && s[s.len() - 2] < 128
}

/// an accepted v1 header value (C15): the text is `PROXY`, a space, the protocol keyword, a space
/// or the CR of the CRLF, ..., CRLF
pub open spec fn v1_header_wf(h: V1Header) -> bool {
    let s = cow_str_bytes(h.header);
    v1_accept_shape0(s, h.addresses) && s[5] == 32u8 && first_index_of(s, 13u8) + 2 == s.len()
}

pub open spec fn v1_err_incomplete(e: V1Error) -> bool {
    e is Partial || e is MissingPrefix || e is MissingProtocol || e is MissingSourceAddress
    || e is MissingDestinationAddress || e is MissingSourcePort || e is MissingDestinationPort
    || e is MissingNewLine
}
pub open spec fn v1_bin_err_incomplete(e: V1BinError) -> bool {
    e matches V1BinError::Parse(p) && v1_err_incomplete(p)
}

// ---- field-level predicates -------------------------------------------------------------
pub open spec fn is_sep(b: u8) -> bool { b == 32u8 || b == 13u8 }
pub open spec fn no_sep(s: Seq<u8>) -> bool { forall|i: int| 0 <= i < s.len() ==> !is_sep(#[trigger] s[i]) }
/// C01: "plain decimal 0-65535 with no sign and no leading zero"
pub open spec fn port_ok(s: Seq<u8>) -> bool {
    1 <= s.len() <= 5 && all_digits(s) && (s.len() == 1 || s[0] != 48u8) && dec_value(s) <= 65535
}

/// "the standard textual form of that family": std's own parsers are the definition
pub open spec fn ipv4_text(s: Seq<u8>) -> Option<std::net::Ipv4Addr> {
    match from_str_spec::<std::net::Ipv4Addr>(s) { Ok(a) => Some(a), Err(_) => None }
}
pub open spec fn ipv6_text(s: Seq<u8>) -> Option<std::net::Ipv6Addr> {
    match from_str_spec::<std::net::Ipv6Addr>(s) { Ok(a) => Some(a), Err(_) => None }
}
/// std's `u16::from_str` (accepts an optional '+' and leading zeros; the parser adds its own checks)
pub open spec fn u16_text(s: Seq<u8>) -> Option<u16> {
    match from_str_spec::<u16>(s) { Ok(a) => Some(a), Err(_) => None }
}

// ---- the line grammar of C01, word for word ---------------------------------------------------
pub open spec fn sp() -> Seq<u8> { seq![32u8] }

pub open spec fn tcp4_line(a: Seq<u8>, b: Seq<u8>, p: Seq<u8>, q: Seq<u8>) -> Seq<u8> {
    b_proxy() + sp() + b_tcp4() + sp() + a + sp() + b + sp() + p + sp() + q + b_crlf()
}
pub open spec fn tcp6_line(a: Seq<u8>, b: Seq<u8>, p: Seq<u8>, q: Seq<u8>) -> Seq<u8> {
    b_proxy() + sp() + b_tcp6() + sp() + a + sp() + b + sp() + p + sp() + q + b_crlf()
}
/// `PROXY UNKNOWN` optionally followed by a space and arbitrary text without CR, then CRLF
pub open spec fn unknown_line(l: Seq<u8>) -> bool {
    let head = b_proxy() + sp() + b_unknown();
    l =~= head + b_crlf()
    || (exists|t: Seq<u8>| #![auto] l =~= head + sp() + t + b_crlf() && (forall|i: int| 0 <= i < t.len() ==> t[i] != 13u8))
}

pub open spec fn wf_tcp4(l: Seq<u8>, x: crate::ip::IPv4) -> bool {
    exists|a: Seq<u8>, b: Seq<u8>, p: Seq<u8>, q: Seq<u8>| #![auto]
        l =~= tcp4_line(a, b, p, q)
        && ipv4_text(a) == Some(x.source_address) && ipv4_text(b) == Some(x.destination_address)
        && port_ok(p) && port_ok(q) && dec_value(p) == x.source_port && dec_value(q) == x.destination_port
}
pub open spec fn wf_tcp6(l: Seq<u8>, x: crate::ip::IPv6) -> bool {
    exists|a: Seq<u8>, b: Seq<u8>, p: Seq<u8>, q: Seq<u8>| #![auto]
        l =~= tcp6_line(a, b, p, q)
        && ipv6_text(a) == Some(x.source_address) && ipv6_text(b) == Some(x.destination_address)
        && port_ok(p) && port_ok(q) && dec_value(p) == x.source_port && dec_value(q) == x.destination_port
}

/// `l` is a well-formed line (at most 107 bytes, CR only as its last-but-one byte) denoting `a`
pub open spec fn wf_line(l: Seq<u8>, a: V1Addresses) -> bool {
    l.len() <= 107 && match a {
        V1Addresses::Unknown => unknown_line(l),
        V1Addresses::Tcp4(x) => wf_tcp4(l, x),
        V1Addresses::Tcp6(x) => wf_tcp6(l, x),
    }
}

/// the examined line of an input: through the byte after its first CR (the whole input when
/// there is no CR or the CR is its last byte)
pub open spec fn v1_window_len(s: Seq<u8>) -> int {
    let cr = first_index_of(s, 13u8);
    if cr < s.len() { if cr + 2 <= s.len() { cr + 2 } else { s.len() as int } } else { s.len() as int }
}
pub open spec fn v1_window(s: Seq<u8>) -> Seq<u8> { s.subrange(0, v1_window_len(s)) }
/// the input contains its first CR followed by at least one more byte
pub open spec fn v1_terminated(s: Seq<u8>) -> bool {
    first_index_of(s, 13u8) + 1 < s.len()
}

/// [C01] postcondition of the v1 entry points (input given as bytes; for the text entry point
/// these are the bytes of the &str)
pub open spec fn c01_post(s: Seq<u8>, r: Result<V1Header, V1Error>) -> bool {
    (r is Ok <==> (v1_terminated(s) && exists|a: V1Addresses| wf_line(v1_window(s), a)))
    && (r matches Ok(h) ==> cow_str_bytes(h.header) =~= v1_window(s) && wf_line(v1_window(s), h.addresses))
}

// ---- functional behaviour of the line parser (FUNC): split model --------------------------------
/// index of the first separator (SP or CR), or s.len()
pub open spec fn first_sep(s: Seq<u8>) -> int
    decreases s.len()
{ if s.len() == 0 { 0 } else if is_sep(s[0]) { 0 } else { 1 + first_sep(s.subrange(1, s.len() as int)) } }

/// `str::splitn(n, |c| c == ' ' || c == '\r')` on the bytes of a valid UTF-8 string
pub open spec fn splitn_spec(s: Seq<u8>, n: nat) -> Seq<Seq<u8>>
    decreases n
{
    if n == 0 { Seq::empty() }
    else if n == 1 { seq![s] }
    else {
        let i = first_sep(s);
        if i >= s.len() { seq![s] }
        else { seq![s.subrange(0, i)] + splitn_spec(s.subrange(i + 1, s.len() as int), (n - 1) as nat) }
    }
}

/// payload-free copy of the error variants
pub enum V1K {
    InvalidPrefix, Partial, MissingPrefix, MissingNewLine, MissingProtocol, MissingSourceAddress,
    MissingDestinationAddress, MissingSourcePort, MissingDestinationPort, HeaderTooLong, InvalidProtocol,
    InvalidSuffix, InvalidSourceAddress, InvalidDestinationAddress, InvalidSourcePort, InvalidDestinationPort,
}
pub open spec fn v1_kind(e: V1Error) -> V1K {
    match e {
        V1Error::InvalidPrefix => V1K::InvalidPrefix, V1Error::Partial => V1K::Partial,
        V1Error::MissingPrefix => V1K::MissingPrefix, V1Error::MissingNewLine => V1K::MissingNewLine,
        V1Error::MissingProtocol => V1K::MissingProtocol, V1Error::MissingSourceAddress => V1K::MissingSourceAddress,
        V1Error::MissingDestinationAddress => V1K::MissingDestinationAddress,
        V1Error::MissingSourcePort => V1K::MissingSourcePort, V1Error::MissingDestinationPort => V1K::MissingDestinationPort,
        V1Error::HeaderTooLong => V1K::HeaderTooLong, V1Error::InvalidProtocol => V1K::InvalidProtocol,
        V1Error::InvalidSuffix => V1K::InvalidSuffix, V1Error::InvalidSourceAddress(_) => V1K::InvalidSourceAddress,
        V1Error::InvalidDestinationAddress(_) => V1K::InvalidDestinationAddress,
        V1Error::InvalidSourcePort(_) => V1K::InvalidSourcePort, V1Error::InvalidDestinationPort(_) => V1K::InvalidDestinationPort,
    }
}
pub open spec fn v1k_incomplete(k: V1K) -> bool {
    k is Partial || k is MissingPrefix || k is MissingProtocol || k is MissingSourceAddress
    || k is MissingDestinationAddress || k is MissingSourcePort || k is MissingDestinationPort || k is MissingNewLine
}

/// verdict of the line parser: the decoded addresses or an error kind
pub enum V1V { Accept(V1Addresses), Reject(V1K) }

/// the checks the parser applies to a port field: no leading zero (unless "0"), no sign, then std
pub open spec fn port_field(s: Seq<u8>) -> Option<u16> {
    if (is_prefix_of(seq![48u8], s) && !(s =~= seq![48u8])) || is_prefix_of(seq![43u8], s) { None } else { u16_text(s) }
}


// ---- FUNC: the line parser on the split model ---------------------------------------------
pub open spec fn part(parts: Seq<Seq<u8>>, i: int) -> Seq<u8> { parts[i] }

/// parse_addresses on the parts that follow the protocol (generic in the address type)
pub open spec fn addr_fields_kind<T: std::str::FromStr>(parts: Seq<Seq<u8>>) -> Option<V1K> {
    // parts[2..6] = source address, destination address, source port, destination port
    if parts.len() < 3 { Some(V1K::MissingSourceAddress) }
    else if parts.len() < 4 { Some(V1K::MissingDestinationAddress) }
    else if parts.len() < 5 { Some(V1K::MissingSourcePort) }
    else if parts.len() < 6 { Some(V1K::MissingDestinationPort) }
    else if parts[5].len() == 0 && parts.len() == 6 { Some(V1K::MissingDestinationPort) }
    else if from_str_spec::<T>(parts[2]) is Err { Some(V1K::InvalidSourceAddress) }
    else if from_str_spec::<T>(parts[3]) is Err { Some(V1K::InvalidDestinationAddress) }
    else if port_field(parts[4]) is None { Some(V1K::InvalidSourcePort) }
    else if port_field(parts[5]) is None { Some(V1K::InvalidDestinationPort) }
    else { None }
}

/// the ending of a TCP line: the 7th part must be exactly LF and the line must end in CRLF
pub open spec fn tcp_tail_kind(w: Seq<u8>, parts: Seq<Seq<u8>>) -> Option<V1K> {
    if parts.len() < 7 || parts[6].len() == 0 { Some(V1K::MissingNewLine) }
    else if !(parts[6] =~= seq![10u8]) || !is_suffix_of(b_crlf(), w) { Some(V1K::InvalidSuffix) }
    else { None }
}

pub open spec fn line_verdict(w: Seq<u8>) -> V1V {
    let parts = splitn_spec(w, 7);
    let prefix = parts[0];
    if w.len() == 0 { V1V::Reject(V1K::MissingPrefix) }
    else if w.len() > 107 { V1V::Reject(V1K::HeaderTooLong) }
    else if prefix.len() > 0 && is_prefix_of(prefix, b_proxy()) && is_suffix_of(prefix, w) { V1V::Reject(V1K::Partial) }
    else if !(prefix =~= b_proxy()) { V1V::Reject(V1K::InvalidPrefix) }
    else if parts.len() < 2 { V1V::Reject(V1K::MissingProtocol) }
    else {
        let proto = parts[1];
        if proto =~= b_tcp4() {
            match addr_fields_kind::<std::net::Ipv4Addr>(parts) {
                Some(k) => V1V::Reject(k),
                None => match tcp_tail_kind(w, parts) {
                    Some(k) => V1V::Reject(k),
                    None => V1V::Accept(V1Addresses::Tcp4(crate::ip::IPv4 {
                        source_address: from_str_spec::<std::net::Ipv4Addr>(parts[2])->Ok_0,
                        source_port: port_field(parts[4])->Some_0,
                        destination_address: from_str_spec::<std::net::Ipv4Addr>(parts[3])->Ok_0,
                        destination_port: port_field(parts[5])->Some_0 })),
                },
            }
        } else if proto =~= b_tcp6() {
            match addr_fields_kind::<std::net::Ipv6Addr>(parts) {
                Some(k) => V1V::Reject(k),
                None => match tcp_tail_kind(w, parts) {
                    Some(k) => V1V::Reject(k),
                    None => V1V::Accept(V1Addresses::Tcp6(crate::ip::IPv6 {
                        source_address: from_str_spec::<std::net::Ipv6Addr>(parts[2])->Ok_0,
                        source_port: port_field(parts[4])->Some_0,
                        destination_address: from_str_spec::<std::net::Ipv6Addr>(parts[3])->Ok_0,
                        destination_port: port_field(parts[5])->Some_0 })),
                },
            }
        } else if proto =~= b_unknown() {
            if is_suffix_of(b_crlf(), w) { V1V::Accept(V1Addresses::Unknown) } else { V1V::Reject(V1K::MissingNewLine) }
        } else if proto.len() == 0 && parts.len() == 2 { V1V::Reject(V1K::MissingProtocol) }
        else if proto.len() > 0 && is_suffix_of(proto, w) && (is_prefix_of(proto, b_tcp4()) || is_prefix_of(proto, b_unknown())) { V1V::Reject(V1K::Partial) }
        else { V1V::Reject(V1K::InvalidProtocol) }
    }
}

pub open spec fn terminal_kind(k: V1K) -> V1K {
    match k { V1K::MissingSourcePort => V1K::InvalidSourcePort, V1K::MissingDestinationPort => V1K::InvalidDestinationPort, _ => V1K::InvalidSuffix }
}

/// verdict of parse_header on window `w`
pub open spec fn header_verdict(w: Seq<u8>) -> V1V {
    match line_verdict(w) {
        V1V::Reject(k) => if v1k_incomplete(k) && v1_terminated(w) { V1V::Reject(terminal_kind(k)) } else { V1V::Reject(k) },
        v => v,
    }
}

/// does the exec result `r` realise verdict `v` on window `w`?
pub open spec fn realises(w: Seq<u8>, r: Result<V1Header, V1Error>, v: V1V) -> bool {
    match v {
        V1V::Accept(a) => (r matches Ok(h) && h.addresses == a && cow_str_bytes(h.header) =~= w),
        V1V::Reject(k) => (r matches Err(e) && v1_kind(e) == k),
    }
}

/// contract of parse_addresses: `parts` are all the pieces of the line, the cursor stands at 2
pub open spec fn addr_post<T: std::str::FromStr>(parts: Seq<Seq<u8>>, r: Result<(T, T, u16, u16), V1Error>, pos2: int) -> bool {
    match addr_fields_kind::<T>(parts) {
        Some(k) => (r matches Err(e) && v1_kind(e) == k),
        None => (r matches Ok(t)
            && from_str_spec::<T>(parts[2]) == Ok::<T, T::Err>(t.0) && from_str_spec::<T>(parts[3]) == Ok::<T, T::Err>(t.1)
            && port_field(parts[4]) == Some(t.2) && port_field(parts[5]) == Some(t.3)
            && pos2 == 6),
    }
}


// ---- verdicts of the public entry points -------------------------------------------------------
/// v1::Header::try_from(&str) on the bytes `s` of the string
/// no CR within the first 107 bytes, or a CR so late (index 106 or beyond) that the line cannot end within 107 bytes
pub open spec fn v1_too_long(s: Seq<u8>) -> bool {
    (first_index_of(s, 13u8) >= s.len() && s.len() >= 107) || (first_index_of(s, 13u8) < s.len() && first_index_of(s, 13u8) + 2 > 107)
}
pub open spec fn entry_verdict_str(s: Seq<u8>) -> V1V {
    if v1_too_long(s) { V1V::Reject(V1K::HeaderTooLong) }
    else if !str_cut_ok(s, v1_window(s).len() as int) { V1V::Reject(V1K::InvalidSuffix) }
    else { header_verdict(v1_window(s)) }
}

/// verdict of the byte entry point: additionally "not valid UTF-8"
pub enum V1BV { Line(V1V), InvalidUtf8 }
pub open spec fn entry_verdict_bytes(b: Seq<u8>) -> V1BV {
    if v1_too_long(b) { V1BV::Line(V1V::Reject(V1K::HeaderTooLong)) }
    else if !valid_utf8(v1_window(b)) {
        // [C05] a character cut short by the end of a line whose CR has not arrived yet may be completed by the next
        // read: the verdict is that of the (valid) text before it
        if first_index_of(b, 13u8) >= b.len() && utf8_truncated(b) {
            // (a text without CR is never accepted - lemma_no_cr_prefix - so this is always a rejection)
            match header_verdict(b.subrange(0, utf8_valid_up_to(b))) { V1V::Reject(k) => V1BV::Line(V1V::Reject(k)), V1V::Accept(_) => V1BV::InvalidUtf8 }
        }
        else { V1BV::InvalidUtf8 }
    }
    else { V1BV::Line(header_verdict(v1_window(b))) }
}
pub open spec fn bin_realises(w: Seq<u8>, r: Result<V1Header, V1BinError>, v: V1BV) -> bool {
    match v {
        V1BV::InvalidUtf8 => (r matches Err(V1BinError::InvalidUtf8(_))),
        V1BV::Line(V1V::Accept(a)) => (r matches Ok(h) && h.addresses == a && cow_str_bytes(h.header) =~= w),
        V1BV::Line(V1V::Reject(k)) => (r matches Err(V1BinError::Parse(e)) && v1_kind(e) == k),
    }
}
pub open spec fn v1v_incomplete(v: V1V) -> bool { v matches V1V::Reject(k) && v1k_incomplete(k) }
pub open spec fn v1bv_incomplete(v: V1BV) -> bool { v matches V1BV::Line(l) && v1v_incomplete(l) }
pub open spec fn v1_res_incomplete(r: Result<V1Header, V1Error>) -> bool { r matches Err(e) && v1_err_incomplete(e) }
pub open spec fn v1_bin_res_incomplete(r: Result<V1Header, V1BinError>) -> bool { r matches Err(e) && v1_bin_err_incomplete(e) }

/// [C18] the input contains its first CR followed by at least one more byte, or 107 bytes have been supplied
/// (without any CR - first sentence of C18 - or with one: "a receiver never has to buffer more than 107 bytes")
pub open spec fn c18_condition(s: Seq<u8>) -> bool {
    v1_terminated(s) || s.len() >= 107
}

/// projections of `realises` / `addr_post` by property
pub open spec fn kind_incomplete_agrees(r_err: Option<V1Error>, k: Option<V1K>) -> bool {
    // the result is an incomplete error exactly when the verdict is, and then of the same kind
    ((r_err matches Some(e) && v1_err_incomplete(e)) <==> (k matches Some(kk) && v1k_incomplete(kk)))
    && ((r_err is Some && v1_err_incomplete(r_err->Some_0)) ==> (k is Some && v1_kind(r_err->Some_0) == k->Some_0))
}
/// only the classification (what C05, C12 and C18 need): the result is an incomplete error exactly when the verdict is
pub open spec fn class_incomplete_agrees(r_err: Option<V1Error>, k: Option<V1K>) -> bool {
    (r_err matches Some(e) && v1_err_incomplete(e)) <==> (k matches Some(kk) && v1k_incomplete(kk))
}
pub open spec fn kind_terminal_agrees(r_err: Option<V1Error>, k: Option<V1K>) -> bool {
    (r_err is Some && !v1_err_incomplete(r_err->Some_0)) ==> (k is Some && v1_kind(r_err->Some_0) == k->Some_0)
}
pub open spec fn res_err<T>(r: Result<T, V1Error>) -> Option<V1Error> { match r { Ok(_) => None, Err(e) => Some(e) } }
pub open spec fn verdict_kind(v: V1V) -> Option<V1K> { match v { V1V::Accept(_) => None, V1V::Reject(k) => Some(k) } }

/// what `Display for v1::Addresses` prints (written from the statement of C08: the canonical line)
pub open spec fn v1_display(a: V1Addresses) -> Seq<u8> {
    match a {
        V1Addresses::Unknown => b_proxy() + sp() + b_unknown() + b_crlf(),
        V1Addresses::Tcp4(x) => tcp4_line(display_ipv4(x.source_address), display_ipv4(x.destination_address),
                                          display_u16(x.source_port), display_u16(x.destination_port)),
        V1Addresses::Tcp6(x) => tcp6_line(display_ipv6(x.source_address), display_ipv6(x.destination_address),
                                          display_u16(x.source_port), display_u16(x.destination_port)),
    }
}


/// the canonical line appended piece by piece (the order in which a formatter receives it)
pub open spec fn v1_display_onto(o: Seq<u8>, a: V1Addresses) -> Seq<u8> {
    match a {
        V1Addresses::Unknown => o + (b_proxy() + sp() + b_unknown() + b_crlf()),
        V1Addresses::Tcp4(x) => o + (b_proxy() + sp() + b_tcp4() + sp()) + display_ipv4(x.source_address) + sp() + display_ipv4(x.destination_address)
            + sp() + display_u16(x.source_port) + sp() + display_u16(x.destination_port) + b_crlf(),
        V1Addresses::Tcp6(x) => o + (b_proxy() + sp() + b_tcp6() + sp()) + display_ipv6(x.source_address) + sp() + display_ipv6(x.destination_address)
            + sp() + display_u16(x.source_port) + sp() + display_u16(x.destination_port) + b_crlf(),
    }
}
