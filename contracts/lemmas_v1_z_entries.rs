// ======================================================================================
// C05 through the remaining entry points: the v1 byte entry point and the auto-detecting parser
// (the text entry point is lemma_c05_v1, the v2 parser lemma_c05_v2).
// ======================================================================================

// [props: C05]
/// C05 for the v1 byte entry point: every proper prefix of a well-formed (US-ASCII) line is
/// reported incomplete - the prefix is its own window, it is valid UTF-8, and the line verdict
/// is the one of the text entry point
pub proof fn lemma_c05_v1_bytes(l: Seq<u8>, a: V1Addresses, k: int)
    requires wf_line(l, a), 0 <= k < l.len(), vstd::utf8::valid_utf8(l.subrange(0, k))
    ensures v1bv_incomplete(entry_verdict_bytes(l.subrange(0, k)))
{
    lemma_c05_v1(l, a, k);
    let w = l.subrange(0, k);
    assert(v1_window(w) =~= w);
    assert(valid_utf8(v1_window(w))) by { reveal(valid_utf8); };
}

/// a buffer that starts with `P` can only be a terminal error for the v2 parser
pub proof fn lemma_v2_class_of_p(s: Seq<u8>)
    requires s.len() > 0, s[0] == 80u8
    ensures v2_class(s) == 2
{
    if s.len() < 12 {
        assert(v2_sig().subrange(0, s.len() as int)[0] == 13u8);
    } else {
        assert(s.subrange(0, 12)[0] == s[0]);
        assert(v2_sig()[0] == 13u8);
    }
}

// [props: C05 C06]
/// C05 through the auto-detecting parser, v1 headers: the empty prefix is an incomplete v2 result,
/// any other prefix starts with `P`, is handed to the v1 byte parser and is incomplete there
pub proof fn lemma_c05_auto_v1(l: Seq<u8>, a: V1Addresses, k: int, r: crate::HeaderResult)
    requires wf_line(l, a), 0 <= k < l.len(), vstd::utf8::valid_utf8(l.subrange(0, k)), c06_post(l.subrange(0, k), r)
    ensures match r {
        crate::HeaderResult::V1(x) => v1_bin_res_incomplete(x),
        crate::HeaderResult::V2(y) => v2_res_incomplete(y),
    }
{
    let w = l.subrange(0, k);
    if k == 0 {
        assert(w =~= v2_sig().subrange(0, 0));
        assert(v2_class(w) == 1);
    } else {
        lemma_c05_v1(l, a, k);
        assert(w[0] == l[0]);
        lemma_v2_class_of_p(w);
        lemma_c05_v1_bytes(l, a, k);
    }
}

// [props: C05 C06]
/// C05 through the auto-detecting parser, v2 headers: a proper prefix of an accepted v2 header is
/// never a terminal v2 error, so the v2 result is returned, and that result is incomplete
pub proof fn lemma_c05_auto_v2(h: Seq<u8>, k: int, r: crate::HeaderResult)
    requires v2_accepts(h), 0 <= k < v2_total(h), c06_post(h.subrange(0, k), r)
    ensures r matches crate::HeaderResult::V2(y) && v2_res_incomplete(y)
{
    let s = h.subrange(0, k);
    // the prefix characterisation holds (as in lemma_c05_v2) ...
    if k < 12 {
        assert(s =~= v2_sig().subrange(0, k)) by {
            assert(h.subrange(0, 12) =~= v2_sig());
            assert forall|i: int| 0 <= i < k implies s[i] == v2_sig().subrange(0, k)[i] by {
                assert(h.subrange(0, 12)[i] == h[i]);
            }
        }
    } else if k < 16 {
        assert(s.subrange(0, 12) =~= h.subrange(0, 12));
    } else {
        assert(s.subrange(0, 12) =~= h.subrange(0, 12));
        assert(s[12] == h[12] && s[13] == h[13] && s[14] == h[14] && s[15] == h[15]);
    }
    // ... so the functional verdict is an incomplete error
    assert(v2_class(s) == 1);
}

// ======================================================================================
// C04 / C18 through the byte entry point and the auto-detecting parser
// ======================================================================================

/// an accepted window ends with the only CR it contains, followed by LF (as lemma_accept_is_terminated,
/// stated on the window so that it serves the byte entry point, whose input need not be UTF-8)
pub proof fn lemma_window_accept(s: Seq<u8>)
    requires header_verdict(v1_window(s)) is Accept
    ensures v1_terminated(s), v1_window(s).len() == first_index_of(s, 13u8) + 2,
        v1_window(s)[v1_window(s).len() - 1] == 10u8, v1_window(s).len() >= 2,
{
    broadcast use crate::prelude::prelude_str_axioms;
    let w = v1_window(s);
    lemma_first_index_bounds(s, 13u8);
    lemma_accept_shape(w);
    let n = w.len() as int;
    assert(w[n - 2] == 13u8) by { assert(w.subrange(n - 2, n)[0] == 13u8); }
    assert(w[n - 1] == 10u8) by { assert(w.subrange(n - 2, n)[1] == 10u8); }
    let cr = first_index_of(s, 13u8);
    if cr >= s.len() {
        assert(w =~= s);
        assert(s[n - 2] == 13u8);
        assert(false);
    }
    lemma_first_index_prefix(s, n, 13u8);
    if cr + 2 > s.len() {
        assert(n == s.len());
        assert(s[cr] == 13u8);
        assert(false);
    }
}

// [props: C04]
/// byte entry point: an accepted input followed by ANY further bytes (valid UTF-8 or not), and the
/// reported header bytes on their own, have the same window and therefore the same verdict
pub proof fn lemma_c04_v1_bytes(s: Seq<u8>, t: Seq<u8>)
    requires entry_verdict_bytes(s) matches V1BV::Line(V1V::Accept(_))
    ensures
        v1_window(s + t) =~= v1_window(s),
        entry_verdict_bytes(s + t) == entry_verdict_bytes(s),
        v1_window(v1_window(s)) =~= v1_window(s),
        entry_verdict_bytes(v1_window(s)) == entry_verdict_bytes(s),
{
    broadcast use crate::prelude::prelude_str_axioms;
    lemma_window_accept(s);
    let w = v1_window(s);
    let n = w.len() as int;
    lemma_first_index_bounds(s, 13u8);
    lemma_first_index_append(s, t, 13u8);
    assert((s + t).subrange(0, n) =~= w);
    lemma_first_index_prefix(s, n, 13u8);
    lemma_first_index_bounds(w, 13u8);
    assert(w.subrange(0, n) =~= w);
}

// [props: C04 C06]
/// auto-detecting parser, v1 header: the input starts with `P`, so it is handed to the v1 byte
/// parser with or without trailing bytes, whose verdict does not change
pub proof fn lemma_c04_auto_v1(s: Seq<u8>, t: Seq<u8>, r1: crate::HeaderResult, r2: crate::HeaderResult)
    requires c06_post(s, r1), c06_post(s + t, r2), r1 matches crate::HeaderResult::V1(x) && x is Ok
    ensures r2 matches crate::HeaderResult::V1(y) && y is Ok
        && y->Ok_0.addresses == r1->V1_0->Ok_0.addresses
        && cow_str_bytes(y->Ok_0.header) =~= cow_str_bytes(r1->V1_0->Ok_0.header),
{
    lemma_c06_exclusive(s);
    lemma_c04_v1_bytes(s, t);
    let w = v1_window(s);
    lemma_window_accept(s);
    assert(s[0] == 80u8) by {
        lemma_accept_shape(w);
        assert(w.subrange(0, 5)[0] == 80u8);
    }
    assert((s + t)[0] == s[0]);
    lemma_v2_class_of_p(s + t);
}

// [props: C04 C06]
/// auto-detecting parser, v2 header: an accepted v2 input stays accepted by the v2 parser when bytes
/// follow, so the auto-detecting parser returns the v2 result in both cases (lemma_c04_v2 then gives
/// the identical header)
pub proof fn lemma_c04_auto_v2(s: Seq<u8>, t: Seq<u8>, r1: crate::HeaderResult, r2: crate::HeaderResult)
    requires c06_post(s, r1), c06_post(s + t, r2), r1 matches crate::HeaderResult::V2(x) && x is Ok
    ensures r2 matches crate::HeaderResult::V2(y) && y is Ok && c02_post(s + t, y) && c02_post(s, r1->V2_0)
{
    assert(v2_accepts(s));
    lemma_prefix_same_fixed(s, t);
    assert(v2_class(s + t) == 0);
}

// [props: C18]
/// byte entry point: once the first CR is followed by a byte, or 107 bytes arrived without a CR,
/// the verdict is final (a success, a terminal error, or invalid UTF-8)
pub proof fn lemma_c18_v1_bytes(s: Seq<u8>)
    requires c18_condition(s)
    ensures !v1bv_incomplete(entry_verdict_bytes(s))
{
    broadcast use crate::prelude::prelude_str_axioms;
    lemma_first_index_bounds(s, 13u8);
    if v1_terminated(s) {
        let w = v1_window(s);
        lemma_first_index_prefix(s, w.len() as int, 13u8);
        assert(v1_terminated(w));
    }
}

// [props: C18 C06]
/// auto-detecting parser on text: a buffer that starts with `P` gets the v1 byte parser's verdict,
/// which is final under the C18 condition
pub proof fn lemma_c18_auto(s: Seq<u8>, r: crate::HeaderResult)
    requires c18_condition(s), s.len() > 0, s[0] == 80u8, c06_post(s, r)
    ensures r matches crate::HeaderResult::V1(x) && !v1_bin_res_incomplete(x)
{
    lemma_v2_class_of_p(s);
    lemma_c18_v1_bytes(s);
}

// [props: C19]
/// the v1 and v2 conversions of the same socket-address pair describe the same endpoints: same
/// family (or both unknown / unspecified for a mixed pair), and the identical IPv4 / IPv6 quadruple
pub proof fn lemma_c19_conversions_agree(s: std::net::SocketAddr, d: std::net::SocketAddr)
    ensures match (v1_from_sockets_spec(s, d), v2_from_sockets_spec(s, d)) {
        (crate::v1::Addresses::Tcp4(x), crate::v2::Addresses::IPv4(y)) => x == y
            && (s matches std::net::SocketAddr::V4(a) && x.source_address == sa4_ip(a) && x.source_port == sa4_port(a))
            && (d matches std::net::SocketAddr::V4(b) && x.destination_address == sa4_ip(b) && x.destination_port == sa4_port(b)),
        (crate::v1::Addresses::Tcp6(x), crate::v2::Addresses::IPv6(y)) => x == y
            && (s matches std::net::SocketAddr::V6(a) && x.source_address == sa6_ip(a) && x.source_port == sa6_port(a))
            && (d matches std::net::SocketAddr::V6(b) && x.destination_address == sa6_ip(b) && x.destination_port == sa6_port(b)),
        (crate::v1::Addresses::Unknown, crate::v2::Addresses::Unspecified) =>
            !((s is V4 && d is V4) || (s is V6 && d is V6)),
        _ => false,
    }
{
}
