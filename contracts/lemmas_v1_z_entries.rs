// ======================================================================================
// C05 through the remaining entry points: the v1 byte entry point and the auto-detecting parser
// (the text entry point is lemma_c05_v1, the v2 parser lemma_c05_v2).
// ======================================================================================

// [props: C05]
/// C05 for the v1 byte entry point: EVERY proper prefix of a well-formed line is reported incomplete.  A prefix that
/// is valid UTF-8 is its own window and has the verdict of the text entry point (lemma_c05_v1); a prefix that ends
/// inside a multi-byte character (UNKNOWN lines may carry any UTF-8 text) is "cut short" - the rest of the line
/// completes it - has no CR, and its verdict is that of its longest valid prefix, again a proper prefix of the line
pub proof fn lemma_c05_v1_bytes(l: Seq<u8>, a: V1Addresses, k: int)
    requires wf_line(l, a), 0 <= k < l.len(), vstd::utf8::valid_utf8(l)
    ensures v1bv_incomplete(entry_verdict_bytes(l.subrange(0, k)))
{
    let w = l.subrange(0, k);
    lemma_c05_v1_core(l, a, k);
    lemma_first_index_bounds(l, 13u8);
    if vstd::utf8::valid_utf8(w) {
        assert(valid_utf8(v1_window(w))) by { reveal(valid_utf8); };
    } else {
        assert(!valid_utf8(v1_window(w))) by { reveal(valid_utf8); };
        // the cut is not on a character boundary, so l[k] is not US-ASCII: it is neither the CR nor the LF
        lemma_utf8_prefix_iff_boundary(l, k);
        lemma_boundary_ascii(l, k);
        assert(l[k] >= 128);
        assert(l[l.len() - 2] == 13u8);
        assert(k < l.len() - 2);
        lemma_first_index_prefix(l, k, 13u8);
        assert(first_index_of(w, 13u8) >= w.len());
        // cut short: the rest of the line completes it
        let t = l.subrange(k, l.len() as int);
        assert(w + t =~= l);
        assert(valid_utf8(w + t)) by { reveal(valid_utf8); };
        assert(utf8_truncated(w));
        lemma_utf8_valid_up_to(w);
        let v = utf8_valid_up_to(w);
        assert(w.subrange(0, v) =~= l.subrange(0, v));
        lemma_c05_v1_core(l, a, v);
    }
}

/// a buffer that starts with `P` can only be a terminal error for the v2 parser
pub proof fn lemma_v2_class_of_p(s: Seq<u8>)
    requires s.len() > 0, s[0] == 80u8
    ensures v2_class(s) == 2
{
    if s.len() < 12 {
        assert(v2_sig().subrange(0, s.len() as int)[0] == 13u8);
    } else {
        assert(s.subrange(0, 12)[0] == s[0]);
        assert(v2_sig()[0] == 13u8);
    }
}

// [props: C05 C06]
/// C05 through the auto-detecting parser, v1 headers: the empty prefix is an incomplete v2 result,
/// any other prefix starts with `P`, is handed to the v1 byte parser and is incomplete there
pub proof fn lemma_c05_auto_v1(l: Seq<u8>, a: V1Addresses, k: int, r: crate::HeaderResult)
    requires wf_line(l, a), 0 <= k < l.len(), vstd::utf8::valid_utf8(l), c06_post(l.subrange(0, k), r)
    ensures match r {
        crate::HeaderResult::V1(x) => v1_bin_res_incomplete(x),
        crate::HeaderResult::V2(y) => v2_res_incomplete(y),
    }
{
    let w = l.subrange(0, k);
    if k == 0 {
        assert(w =~= v2_sig().subrange(0, 0));
        assert(v2_class(w) == 1);
    } else {
        lemma_c05_v1_core(l, a, k);
        assert(w[0] == l[0]);
        lemma_v2_class_of_p(w);
        lemma_c05_v1_bytes(l, a, k);
    }
}

// [props: C05 C06]
/// C05 through the auto-detecting parser, v2 headers: a proper prefix of an accepted v2 header is
/// never a terminal v2 error, so the v2 result is returned, and that result is incomplete
pub proof fn lemma_c05_auto_v2(h: Seq<u8>, k: int, r: crate::HeaderResult)
    requires v2_accepts(h), 0 <= k < v2_total(h), c06_post(h.subrange(0, k), r)
    ensures r matches crate::HeaderResult::V2(y) && v2_res_incomplete(y)
{
    let s = h.subrange(0, k);
    // the prefix characterisation holds (as in lemma_c05_v2) ...
    if k < 12 {
        assert(s =~= v2_sig().subrange(0, k)) by {
            assert(h.subrange(0, 12) =~= v2_sig());
            assert forall|i: int| 0 <= i < k implies s[i] == v2_sig().subrange(0, k)[i] by {
                assert(h.subrange(0, 12)[i] == h[i]);
            }
        }
    } else if k < 16 {
        assert(s.subrange(0, 12) =~= h.subrange(0, 12));
    } else {
        assert(s.subrange(0, 12) =~= h.subrange(0, 12));
        assert(s[12] == h[12] && s[13] == h[13] && s[14] == h[14] && s[15] == h[15]);
    }
    // ... so the functional verdict is an incomplete error
    assert(v2_class(s) == 1);
}

// ======================================================================================
// C04 / C18 through the byte entry point and the auto-detecting parser
// ======================================================================================

/// an accepted window ends with the only CR it contains, followed by LF (as lemma_accept_is_terminated,
/// stated on the window so that it serves the byte entry point, whose input need not be UTF-8)
pub proof fn lemma_window_accept(s: Seq<u8>)
    requires header_verdict(v1_window(s)) is Accept
    ensures v1_terminated(s), v1_window(s).len() == first_index_of(s, 13u8) + 2,
        v1_window(s)[v1_window(s).len() - 1] == 10u8, v1_window(s).len() >= 2,
{
    broadcast use crate::prelude::prelude_str_axioms;
    let w = v1_window(s);
    lemma_first_index_bounds(s, 13u8);
    lemma_accept_shape(w);
    let n = w.len() as int;
    assert(w[n - 2] == 13u8) by { assert(w.subrange(n - 2, n)[0] == 13u8); }
    assert(w[n - 1] == 10u8) by { assert(w.subrange(n - 2, n)[1] == 10u8); }
    let cr = first_index_of(s, 13u8);
    if cr >= s.len() {
        assert(w =~= s);
        assert(s[n - 2] == 13u8);
        assert(false);
    }
    lemma_first_index_prefix(s, n, 13u8);
    if cr + 2 > s.len() {
        assert(n == s.len());
        assert(s[cr] == 13u8);
        assert(false);
    }
}

// [props: C04]
/// byte entry point: an accepted input followed by ANY further bytes (valid UTF-8 or not), and the
/// reported header bytes on their own, have the same window and therefore the same verdict
pub proof fn lemma_c04_v1_bytes(s: Seq<u8>, t: Seq<u8>)
    requires entry_verdict_bytes(s) matches V1BV::Line(V1V::Accept(_))
    ensures
        v1_window(s + t) =~= v1_window(s),
        entry_verdict_bytes(s + t) == entry_verdict_bytes(s),
        v1_window(v1_window(s)) =~= v1_window(s),
        entry_verdict_bytes(v1_window(s)) == entry_verdict_bytes(s),
{
    broadcast use crate::prelude::prelude_str_axioms;
    lemma_bytes_accept_window(s);
    lemma_window_accept(s);
    let w = v1_window(s);
    let n = w.len() as int;
    lemma_first_index_bounds(s, 13u8);
    lemma_first_index_append(s, t, 13u8);
    assert((s + t).subrange(0, n) =~= w);
    lemma_first_index_prefix(s, n, 13u8);
    lemma_first_index_bounds(w, 13u8);
    assert(w.subrange(0, n) =~= w);
}

// [props: C04 C06]
/// auto-detecting parser, v1 header: the input starts with `P`, so it is handed to the v1 byte
/// parser with or without trailing bytes, whose verdict does not change
pub proof fn lemma_c04_auto_v1(s: Seq<u8>, t: Seq<u8>, r1: crate::HeaderResult, r2: crate::HeaderResult)
    requires c06_post(s, r1), c06_post(s + t, r2), r1 matches crate::HeaderResult::V1(x) && x is Ok
    ensures r2 matches crate::HeaderResult::V1(y) && y is Ok
        && y->Ok_0.addresses == r1->V1_0->Ok_0.addresses
        && cow_str_bytes(y->Ok_0.header) =~= cow_str_bytes(r1->V1_0->Ok_0.header),
{
    lemma_c06_exclusive(s);
    lemma_c04_v1_bytes(s, t);
    lemma_bytes_accept_window(s);
    let w = v1_window(s);
    lemma_window_accept(s);
    assert(s[0] == 80u8) by {
        lemma_accept_shape(w);
        assert(w.subrange(0, 5)[0] == 80u8);
    }
    assert((s + t)[0] == s[0]);
    lemma_v2_class_of_p(s + t);
}

// [props: C04 C06]
/// auto-detecting parser, v2 header: an accepted v2 input stays accepted by the v2 parser when bytes
/// follow, so the auto-detecting parser returns the v2 result in both cases (lemma_c04_v2 then gives
/// the identical header)
pub proof fn lemma_c04_auto_v2(s: Seq<u8>, t: Seq<u8>, r1: crate::HeaderResult, r2: crate::HeaderResult)
    requires c06_post(s, r1), c06_post(s + t, r2), r1 matches crate::HeaderResult::V2(x) && x is Ok
    ensures r2 matches crate::HeaderResult::V2(y) && y is Ok && c02_post(s + t, y) && c02_post(s, r1->V2_0)
{
    assert(v2_accepts(s));
    lemma_prefix_same_fixed(s, t);
    assert(v2_class(s + t) == 0);
}

// [props: C04 C06]
/// auto-detecting parser, v1 header: the reported header bytes on their own start with `P` as well, are handed to
/// the v1 byte parser and have the verdict of the whole input
pub proof fn lemma_c04_auto_v1_alone(s: Seq<u8>, r1: crate::HeaderResult, r3: crate::HeaderResult)
    requires c06_post(s, r1), c06_post(v1_window(s), r3), r1 matches crate::HeaderResult::V1(x) && x is Ok
    ensures r3 matches crate::HeaderResult::V1(y) && y is Ok
        && y->Ok_0.addresses == r1->V1_0->Ok_0.addresses
        && cow_str_bytes(y->Ok_0.header) =~= cow_str_bytes(r1->V1_0->Ok_0.header),
        cow_str_bytes(r1->V1_0->Ok_0.header) =~= v1_window(s),
{
    lemma_c06_exclusive(s);
    lemma_c04_v1_bytes(s, Seq::<u8>::empty());
    lemma_bytes_accept_window(s);
    let w = v1_window(s);
    lemma_window_accept(s);
    assert(s[0] == 80u8) by {
        lemma_accept_shape(w);
        assert(w.subrange(0, 5)[0] == 80u8);
    }
    assert(w[0] == s[0]);
    lemma_v2_class_of_p(w);
}

// [props: C04 C06]
/// auto-detecting parser, v2 header: the reported header bytes on their own (the first 16 + declared length bytes)
/// are accepted by the v2 parser, so the auto-detecting parser returns the v2 result for them too (lemma_c04_v2
/// then gives the identical header)
pub proof fn lemma_c04_auto_v2_alone(s: Seq<u8>, r1: crate::HeaderResult, r3: crate::HeaderResult)
    requires c06_post(s, r1), r1 matches crate::HeaderResult::V2(x) && x is Ok, c06_post(r1->V2_0->Ok_0.header@, r3)
    ensures r3 matches crate::HeaderResult::V2(y) && y is Ok && c02_post(r1->V2_0->Ok_0.header@, y) && c02_post(s, r1->V2_0)
{
    assert(v2_accepts(s));
    let h = r1->V2_0->Ok_0.header@;
    let total = v2_total(s);
    assert(h =~= s.subrange(0, total));
    assert(h.subrange(0, 12) =~= s.subrange(0, 12));
    assert(h[12] == s[12] && h[13] == s[13] && h[14] == s[14] && h[15] == s[15]);
    assert(v2_accepts(h));
    assert(v2_class(h) == 0);
}

// [props: C01]
/// C01 for the BYTE entry point, from the clauses Verus proves on `try_from(&[u8])`: success iff the input starts
/// with a well-formed line (ended by its first CR followed by LF) that is valid UTF-8 - the "arbitrary (valid UTF-8)
/// text" of an UNKNOWN line; TCP lines are US-ASCII anyway; the header text is that line, the addresses the ones written
#[verifier::rlimit(60)]
pub proof fn lemma_c01_bytes(s: Seq<u8>, r: Result<V1Header, V1BinError>)
    requires
        r is Ok <==> entry_verdict_bytes(s) matches V1BV::Line(V1V::Accept(_)),
        r is Ok ==> bin_realises(v1_window(s), r, entry_verdict_bytes(s)),
    ensures
        r is Ok <==> (v1_terminated(s) && valid_utf8(v1_window(s)) && exists|a: V1Addresses| wf_line(v1_window(s), a)),
        r matches Ok(h) ==> cow_str_bytes(h.header) =~= v1_window(s) && wf_line(v1_window(s), h.addresses),
{
    broadcast use crate::prelude::prelude_str_axioms;
    broadcast use crate::prelude::prelude_utf8_axioms;
    let w = v1_window(s);
    if entry_verdict_bytes(s) matches V1BV::Line(V1V::Accept(_)) {
        lemma_bytes_accept_window(s);
        lemma_window_accept(s);
        let a = header_verdict(w)->Accept_0;
        assert(line_verdict(w) == V1V::Accept(a));
        match a {
            V1Addresses::Unknown => { lemma_accepted_unknown_wf(w); },
            V1Addresses::Tcp4(x) => { lemma_accepted_tcp4_wf(w, x); },
            V1Addresses::Tcp6(x) => { lemma_accepted_tcp6_wf(w, x); },
        }
        assert(wf_line(w, a));
    }
    if v1_terminated(s) && valid_utf8(w) && exists|a: V1Addresses| wf_line(w, a) {
        let a = choose|a: V1Addresses| wf_line(w, a);
        match a {
            V1Addresses::Unknown => { lemma_unknown_line_accepted(w); },
            V1Addresses::Tcp4(x) => { lemma_wf_tcp4_accepted(w, x); },
            V1Addresses::Tcp6(x) => { lemma_wf_tcp6_accepted(w, x); },
        }
        assert(line_verdict(w) == V1V::Accept(a));
        assert(header_verdict(w) == V1V::Accept(a));
        // a terminated input is not "107 bytes without CR"
        lemma_first_index_bounds(s, 13u8);
        assert(entry_verdict_bytes(s) == V1BV::Line(V1V::Accept(a)));
    }
}

// [props: C18]
/// byte entry point: once the first CR is followed by a byte, or 107 bytes arrived without a CR,
/// the verdict is final (a success, a terminal error, or invalid UTF-8)
pub proof fn lemma_c18_v1_bytes(s: Seq<u8>)
    requires c18_condition(s)
    ensures !v1bv_incomplete(entry_verdict_bytes(s))
{
    broadcast use crate::prelude::prelude_str_axioms;
    lemma_first_index_bounds(s, 13u8);
    if v1_terminated(s) {
        let w = v1_window(s);
        lemma_first_index_prefix(s, w.len() as int, 13u8);
        assert(v1_terminated(w));
    }
}

// [props: C18 C06]
/// auto-detecting parser on text: a buffer that starts with `P` gets the v1 byte parser's verdict,
/// which is final under the C18 condition
pub proof fn lemma_c18_auto(s: Seq<u8>, r: crate::HeaderResult)
    requires c18_condition(s), s.len() > 0, s[0] == 80u8, c06_post(s, r)
    ensures r matches crate::HeaderResult::V1(x) && !v1_bin_res_incomplete(x)
{
    lemma_v2_class_of_p(s);
    lemma_c18_v1_bytes(s);
}

// [props: C19]
/// the v1 and v2 conversions of the same socket-address pair describe the same endpoints: same
/// family (or both unknown / unspecified for a mixed pair), and the identical IPv4 / IPv6 quadruple
pub proof fn lemma_c19_conversions_agree(s: std::net::SocketAddr, d: std::net::SocketAddr)
    ensures match (v1_from_sockets_spec(s, d), v2_from_sockets_spec(s, d)) {
        (crate::v1::Addresses::Tcp4(x), crate::v2::Addresses::IPv4(y)) => x == y
            && (s matches std::net::SocketAddr::V4(a) && x.source_address == sa4_ip(a) && x.source_port == sa4_port(a))
            && (d matches std::net::SocketAddr::V4(b) && x.destination_address == sa4_ip(b) && x.destination_port == sa4_port(b)),
        (crate::v1::Addresses::Tcp6(x), crate::v2::Addresses::IPv6(y)) => x == y
            && (s matches std::net::SocketAddr::V6(a) && x.source_address == sa6_ip(a) && x.source_port == sa6_port(a))
            && (d matches std::net::SocketAddr::V6(b) && x.destination_address == sa6_ip(b) && x.destination_port == sa6_port(b)),
        (crate::v1::Addresses::Unknown, crate::v2::Addresses::Unspecified) =>
            !((s is V4 && d is V4) || (s is V6 && d is V6)),
        _ => false,
    }
{
}

// ======================================================================================
// C08 through every text entry point: the canonical line is its own window, is US-ASCII (hence
// valid UTF-8) and is accepted with the same value by the text and the byte entry point
// ======================================================================================

/// US-ASCII bytes are valid UTF-8 (induction over vstd::utf8's scalar decomposition)
pub proof fn lemma_ascii_valid_utf8(b: Seq<u8>)
    requires forall|i: int| 0 <= i < b.len() ==> b[i] < 128
    ensures vstd::utf8::valid_utf8(b)
    decreases b.len()
{
    if b.len() > 0 {
        assert(vstd::utf8::is_leading_byte_width_1(b[0]));
        assert(vstd::utf8::length_of_first_scalar(b) == 1);
        let p = vstd::utf8::pop_first_scalar(b);
        assert(p =~= b.subrange(1, b.len() as int));
        assert forall|i: int| 0 <= i < p.len() implies p[i] < 128 by { assert(p[i] == b[i + 1]); }
        lemma_ascii_valid_utf8(p);
        assert(vstd::utf8::valid_first_scalar(b));
    }
}

/// a well-formed TCP line: its only CR is the one of the final CRLF, and every byte is US-ASCII
#[verifier::rlimit(60)]
pub proof fn lemma_tcp_line_window(l: Seq<u8>, v4: bool, a: Seq<u8>, b: Seq<u8>, p: Seq<u8>, q: Seq<u8>)
    requires
        l =~= tcp_line(if v4 { b_tcp4() } else { b_tcp6() }, a, b, p, q),
        v4 ==> from_str_spec::<std::net::Ipv4Addr>(a) is Ok && from_str_spec::<std::net::Ipv4Addr>(b) is Ok,
        !v4 ==> from_str_spec::<std::net::Ipv6Addr>(a) is Ok && from_str_spec::<std::net::Ipv6Addr>(b) is Ok,
        port_ok(p), port_ok(q),
    ensures
        first_index_of(l, 13u8) + 2 == l.len(),
        forall|j: int| 0 <= j < l.len() ==> #[trigger] l[j] < 128,
{
    broadcast use crate::prelude::prelude_parse_axioms;
    broadcast use crate::prelude::prelude_str_axioms;
    let kw = if v4 { b_tcp4() } else { b_tcp6() };
    assert(l == tcp_line(kw, a, b, p, q));
    lemma_keywords_no_sep();
    assert(addr_bytes(a) && addr_bytes(b));
    lemma_addr_plain(a); lemma_addr_plain(b); lemma_digits_plain(p); lemma_digits_plain(q);
    assert(plain_field(kw));
    let n = l.len() as int;
    lemma_line_bytes(kw, a, b, p, q, n - 1);
    lemma_first_index_bounds(l, 13u8);
    let c = first_index_of(l, 13u8);
    if c < n - 2 { lemma_line_bytes(kw, a, b, p, q, c); }
    // every byte is ASCII
    let o1 = 6int; let o2 = o1 + kw.len() + 1; let o3 = o2 + a.len() + 1; let o4 = o3 + b.len() + 1; let o5 = o4 + p.len() + 1;
    let o6 = o5 + q.len();
    assert(n == o6 + 2);
    assert forall|j: int| 0 <= j < n implies #[trigger] l[j] < 128 by {
        if j < 5 { assert(l[j] == b_proxy()[j]); }
        else if j == 5 { assert(l[j] == 32u8); }
        else if j < o1 + kw.len() { assert(l[j] == kw[j - o1]); }
        else if j == o2 - 1 { assert(l[j] == 32u8); }
        else if j < o2 + a.len() { assert(l[j] == a[j - o2]); assert(addr_byte(a[j - o2])); }
        else if j == o3 - 1 { assert(l[j] == 32u8); }
        else if j < o3 + b.len() { assert(l[j] == b[j - o3]); assert(addr_byte(b[j - o3])); }
        else if j == o4 - 1 { assert(l[j] == 32u8); }
        else if j < o4 + p.len() { assert(l[j] == p[j - o4]); assert(is_digit(p[j - o4])); }
        else if j == o5 - 1 { assert(l[j] == 32u8); }
        else if j < o5 + q.len() { assert(l[j] == q[j - o5]); assert(is_digit(q[j - o5])); }
        else if j == o6 { assert(l[j] == 13u8); }
        else { assert(l[j] == 10u8); }
    }
}

/// an accepted US-ASCII line whose only CR is the final one is accepted, as a whole, by the text
/// and by the byte entry point
#[verifier::rlimit(60)]
pub proof fn lemma_line_accepted_by_entries(l: Seq<u8>, a: V1Addresses)
    requires
        line_verdict(l) == V1V::Accept(a), l.len() <= 107,
        first_index_of(l, 13u8) + 2 == l.len(),
        forall|j: int| 0 <= j < l.len() ==> #[trigger] l[j] < 128,
    ensures
        v1_window(l) =~= l,
        vstd::utf8::valid_utf8(l),
        entry_verdict_str(l) == V1V::Accept(a),
        entry_verdict_bytes(l) == V1BV::Line(V1V::Accept(a)),
{
    broadcast use crate::prelude::prelude_utf8_axioms;
    let n = l.len() as int;
    lemma_first_index_bounds(l, 13u8);
    assert(v1_window(l) =~= l);
    lemma_ascii_valid_utf8(l);
    assert(valid_utf8(l)) by { reveal(valid_utf8); };
    assert(header_verdict(l) == V1V::Accept(a));
    assert(str_cut_ok(l, n));
}

// [props: C08 C01]
/// every text entry point accepts the canonical line of an address value with exactly that value:
/// the line is its own window (its only CR is the final one), it is valid UTF-8, so the text
/// entry point, the `FromStr` impls (stated over the same verdict) and the byte entry point all
/// return `a`
#[verifier::rlimit(60)]
pub proof fn lemma_c08_entries(a: V1Addresses)
    ensures
        v1_window(v1_display(a)) =~= v1_display(a),
        vstd::utf8::valid_utf8(v1_display(a)),
        entry_verdict_str(v1_display(a)) == V1V::Accept(a),
        entry_verdict_bytes(v1_display(a)) == V1BV::Line(V1V::Accept(a)),
{
    lemma_c08_roundtrip(a);
    lemma_c08_line_facts(a);
    lemma_line_accepted_by_entries(v1_display(a), a);
}

/// the canonical line: its only CR is the final one and every byte is US-ASCII
#[verifier::rlimit(60)]
pub proof fn lemma_c08_line_facts(a: V1Addresses)
    ensures
        first_index_of(v1_display(a), 13u8) + 2 == v1_display(a).len(),
        forall|j: int| 0 <= j < v1_display(a).len() ==> #[trigger] v1_display(a)[j] < 128,
{
    broadcast use crate::prelude::prelude_str_axioms;
    broadcast use crate::prelude::prelude_display_axioms;
    let l = v1_display(a);
    let n = l.len() as int;
    match a {
        V1Addresses::Unknown => {
            assert(unknown_line(l));
            lemma_unknown_bytes(l);
            lemma_first_index_bounds(l, 13u8);
            assert(l =~= unknown_head() + b_crlf());
            assert forall|j: int| 0 <= j < n implies #[trigger] l[j] < 128 by {
                if j < 13 { assert(l[j] == unknown_head()[j]); } else { assert(l[j] == b_crlf()[j - 13]); }
            }
        },
        V1Addresses::Tcp4(x) => {
            let (sa, da, spt, dpt) = (display_ipv4(x.source_address), display_ipv4(x.destination_address), display_u16(x.source_port), display_u16(x.destination_port));
            assert(port_ok(spt) && port_ok(dpt));
            assert(l =~= tcp_line(b_tcp4(), sa, da, spt, dpt));
            lemma_tcp_line_window(l, true, sa, da, spt, dpt);
        },
        V1Addresses::Tcp6(x) => {
            let (sa, da, spt, dpt) = (display_ipv6(x.source_address), display_ipv6(x.destination_address), display_u16(x.source_port), display_u16(x.destination_port));
            assert(port_ok(spt) && port_ok(dpt));
            assert(l =~= tcp_line(b_tcp6(), sa, da, spt, dpt));
            lemma_tcp_line_window(l, false, sa, da, spt, dpt);
        },
    }
}

// ======================================================================================
// C12, v1 half: a complete well-formed line with exactly ONE element corrupted is rejected with the terminal
// kind that names the element.  The statement is about the verdict functions; the exec-to-verdict link is the
// acceptance / classification / exact-kind clauses proved on the parsers.
// ======================================================================================

/// the kind the address / port cascade reports for the four fields of a TCP line
pub open spec fn c12_field_kind(v4: bool, a: Seq<u8>, b: Seq<u8>, p: Seq<u8>, q: Seq<u8>) -> Option<V1K> {
    let bad_a = if v4 { from_str_spec::<std::net::Ipv4Addr>(a) is Err } else { from_str_spec::<std::net::Ipv6Addr>(a) is Err };
    let bad_b = if v4 { from_str_spec::<std::net::Ipv4Addr>(b) is Err } else { from_str_spec::<std::net::Ipv6Addr>(b) is Err };
    if bad_a { Some(V1K::InvalidSourceAddress) }
    else if bad_b { Some(V1K::InvalidDestinationAddress) }
    else if port_field(p) is None { Some(V1K::InvalidSourcePort) }
    else if port_field(q) is None { Some(V1K::InvalidDestinationPort) }
    else { None }
}

// [props: C12]
/// fields: a line `PROXY TCP4|TCP6 a b p q CRLF` of at most 107 bytes whose four fields contain no separator (so the
/// fields stay where they are) and whose last field is not empty is rejected with the kind of its first invalid
/// field - with exactly one invalid field, the kind that names it - and that kind is terminal, through the line
/// verdict, the header verdict and both entry points
#[verifier::rlimit(60)]
pub proof fn lemma_c12_v1_fields(v4: bool, a: Seq<u8>, b: Seq<u8>, p: Seq<u8>, q: Seq<u8>)
    requires
        no_sep(a), no_sep(b), no_sep(p), no_sep(q), q.len() > 0,
        tcp_line(if v4 { b_tcp4() } else { b_tcp6() }, a, b, p, q).len() <= 107,
        c12_field_kind(v4, a, b, p, q) is Some,
    ensures ({
        let l = tcp_line(if v4 { b_tcp4() } else { b_tcp6() }, a, b, p, q);
        let k = c12_field_kind(v4, a, b, p, q)->Some_0;
        &&& line_verdict(l) == V1V::Reject(k)
        &&& header_verdict(l) == V1V::Reject(k)
        &&& !v1k_incomplete(k)
        &&& vstd::utf8::valid_utf8(l) ==> entry_verdict_str(l) == V1V::Reject(k) && entry_verdict_bytes(l) == V1BV::Line(V1V::Reject(k))
    }),
{
    broadcast use crate::prelude::prelude_parse_axioms;
    broadcast use crate::prelude::prelude_str_axioms;
    broadcast use crate::prelude::prelude_utf8_axioms;
    let kw = if v4 { b_tcp4() } else { b_tcp6() };
    let l = tcp_line(kw, a, b, p, q);
    lemma_keywords_no_sep();
    lemma_tcp_line_split(kw, a, b, p, q);
    let parts = splitn_spec(l, 7);
    assert(parts =~= seq![b_proxy(), kw, a, b, p, q, seq![10u8]]);
    let n = l.len() as int;
    assert(l[n - 1] == 10u8 && l[n - 2] == 13u8);
    assert(!is_suffix_of(b_proxy(), l)) by {
        if is_suffix_of(b_proxy(), l) { assert(l.subrange(n - 5, n)[4] == l[n - 1]); }
    }
    assert(parts[1] =~= kw);
    assert(!(b_tcp4() =~= b_tcp6())) by { assert(b_tcp4()[3] != b_tcp6()[3]); }
    // the window of the line is the line: its only CR is the one of the CRLF
    lemma_c12_line_window(kw, a, b, p, q);
    let k = c12_field_kind(v4, a, b, p, q)->Some_0;
    assert(l.len() > 0 && l.len() <= 107);
    assert(parts[0] =~= b_proxy());
    assert(parts.len() == 7);
    if v4 {
        assert(parts[1] =~= b_tcp4());
        assert(addr_fields_kind::<std::net::Ipv4Addr>(parts) == Some(k));
    } else {
        assert(parts[1] =~= b_tcp6());
        assert(!(parts[1] =~= b_tcp4()));
        assert(addr_fields_kind::<std::net::Ipv6Addr>(parts) == Some(k));
    }
    assert(line_verdict(l) == V1V::Reject(k));
    assert(!v1k_incomplete(k));
    assert(header_verdict(l) == V1V::Reject(k));
    // the LF is US-ASCII: the cut after it is a character boundary whenever the line is text
    assert(entry_verdict_bytes(l) == V1BV::Line(V1V::Reject(k)) || !valid_utf8(v1_window(l)));
    if vstd::utf8::valid_utf8(l) {
        assert(valid_utf8(v1_window(l))) by { reveal(valid_utf8); };
        lemma_boundary_ends(l);
        assert(str_cut_ok(l, l.len() as int));
        assert(entry_verdict_str(l) == V1V::Reject(k));
    }
}

// [props: C12]
/// a TCP-shaped line whose fields contain no separator: its first CR is the one of the final CRLF, so the line is
/// its own window, is terminated... no: it ends with the LF, the byte after the CR
pub proof fn lemma_c12_line_window(kw: Seq<u8>, a: Seq<u8>, b: Seq<u8>, p: Seq<u8>, q: Seq<u8>)
    requires no_sep(kw), no_sep(a), no_sep(b), no_sep(p), no_sep(q), tcp_line(kw, a, b, p, q).len() <= 107
    ensures ({
        let l = tcp_line(kw, a, b, p, q);
        &&& first_index_of(l, 13u8) + 2 == l.len()
        &&& v1_window(l) =~= l
        &&& v1_terminated(l)
        &&& !v1_too_long(l)
        &&& str_cut_ok(l, l.len() as int) == vstd::utf8::is_char_boundary(l, l.len() as int)
    }),
{
    broadcast use crate::prelude::prelude_str_axioms;
    let l = tcp_line(kw, a, b, p, q);
    let n = l.len() as int;
    lemma_keywords_no_sep();
    lemma_first_index_bounds(l, 13u8);
    let c = first_index_of(l, 13u8);
    assert(l[n - 2] == 13u8);
    if c < n - 2 {
        // a CR before the CRLF would lie inside PROXY, a space, or one of the fields
        lemma_line_bytes_nosep(kw, a, b, p, q, c);
    }
}

// [props: C12]
/// every byte of the line before its CRLF is a byte of `PROXY`, a space, or a byte of one of the (separator-free) fields
pub proof fn lemma_line_bytes_nosep(kw: Seq<u8>, a: Seq<u8>, b: Seq<u8>, p: Seq<u8>, q: Seq<u8>, j: int)
    requires no_sep(kw), no_sep(a), no_sep(b), no_sep(p), no_sep(q), 0 <= j < tcp_line(kw, a, b, p, q).len() - 2
    ensures tcp_line(kw, a, b, p, q)[j] != 13u8
{
    let l = tcp_line(kw, a, b, p, q);
    let o1 = 6int; let o2 = o1 + kw.len() + 1; let o3 = o2 + a.len() + 1; let o4 = o3 + b.len() + 1; let o5 = o4 + p.len() + 1;
    if j < 5 { assert(l[j] == b_proxy()[j]); }
    else if j == 5 { assert(l[j] == 32u8); }
    else if j < o1 + kw.len() { assert(l[j] == kw[j - o1]); }
    else if j == o2 - 1 { assert(l[j] == 32u8); }
    else if j < o2 + a.len() { assert(l[j] == a[j - o2]); }
    else if j == o3 - 1 { assert(l[j] == 32u8); }
    else if j < o3 + b.len() { assert(l[j] == b[j - o3]); }
    else if j == o4 - 1 { assert(l[j] == 32u8); }
    else if j < o4 + p.len() { assert(l[j] == p[j - o4]); }
    else if j == o5 - 1 { assert(l[j] == 32u8); }
    else { assert(l[j] == q[j - o5]); }
}

// [props: C12]
/// keyword: a line whose first field is not `PROXY` (no separator inside it; the line ends in LF, at most 107 bytes)
/// is rejected with the terminal `InvalidPrefix`
pub proof fn lemma_c12_v1_keyword(kw0: Seq<u8>, rest: Seq<u8>)
    requires
        no_sep(kw0), !(kw0 =~= b_proxy()), rest.len() > 0, rest[rest.len() - 1] == 10u8,
        (kw0 + sp() + rest).len() <= 107,
    ensures
        line_verdict(kw0 + sp() + rest) == V1V::Reject(V1K::InvalidPrefix),
        header_verdict(kw0 + sp() + rest) == V1V::Reject(V1K::InvalidPrefix),
        !v1k_incomplete(V1K::InvalidPrefix),
{
    let w = kw0 + sp() + rest;
    assert(w =~= kw0 + seq![32u8] + rest);
    lemma_split_cons(kw0, 32u8, rest, 7);
    let parts = splitn_spec(w, 7);
    assert(parts[0] =~= kw0);
    let n = w.len() as int;
    assert(w[n - 1] == 10u8);
    // the line does not END with its first field: that field contains no LF ... unless it is empty, which is no prefix `Partial` either
    if kw0.len() > 0 && is_prefix_of(kw0, b_proxy()) && is_suffix_of(kw0, w) {
        assert(w.subrange(n - kw0.len(), n)[kw0.len() - 1] == w[n - 1]);
        assert(kw0[kw0.len() - 1] == 10u8);
        assert(b_proxy().subrange(0, kw0.len() as int)[kw0.len() - 1] == kw0[kw0.len() - 1]);
        assert forall|j: int| 0 <= j < 5 implies b_proxy()[j] != 10u8 by {}
        assert(false);
    }
}

// [props: C12]
/// protocol: `PROXY <x> ...LF` where `x` is none of the three keywords (no separator inside it) is rejected with the
/// terminal `InvalidProtocol`
pub proof fn lemma_c12_v1_protocol(x: Seq<u8>, rest: Seq<u8>)
    requires
        no_sep(x), !(x =~= b_tcp4()), !(x =~= b_tcp6()), !(x =~= b_unknown()),
        rest.len() > 0, rest[rest.len() - 1] == 10u8,
        (b_proxy() + sp() + x + sp() + rest).len() <= 107,
    ensures
        line_verdict(b_proxy() + sp() + x + sp() + rest) == V1V::Reject(V1K::InvalidProtocol),
        header_verdict(b_proxy() + sp() + x + sp() + rest) == V1V::Reject(V1K::InvalidProtocol),
        !v1k_incomplete(V1K::InvalidProtocol),
{
    lemma_keywords_no_sep();
    let tail = x + seq![32u8] + rest;
    let w = b_proxy() + sp() + x + sp() + rest;
    assert(w =~= b_proxy() + seq![32u8] + tail);
    lemma_split_cons(b_proxy(), 32u8, tail, 7);
    lemma_split_cons(x, 32u8, rest, 6);
    let parts = splitn_spec(w, 7);
    lemma_split_len(rest, 5);
    assert(parts[0] =~= b_proxy());
    assert(parts[1] =~= x);
    assert(parts.len() >= 3);
    let n = w.len() as int;
    assert(w[n - 1] == 10u8);
    assert(!is_suffix_of(b_proxy(), w)) by {
        if is_suffix_of(b_proxy(), w) { assert(w.subrange(n - 5, n)[4] == w[n - 1]); }
    }
    if x.len() > 0 && is_suffix_of(x, w) {
        assert(w.subrange(n - x.len(), n)[x.len() - 1] == w[n - 1]);
        assert(x[x.len() - 1] == 10u8);
        // a prefix of TCP4 / UNKNOWN contains no LF
        if is_prefix_of(x, b_tcp4()) { assert(b_tcp4().subrange(0, x.len() as int)[x.len() - 1] == x[x.len() - 1]); assert forall|j: int| 0 <= j < 4 implies b_tcp4()[j] != 10u8 by {} }
        if is_prefix_of(x, b_unknown()) { assert(b_unknown().subrange(0, x.len() as int)[x.len() - 1] == x[x.len() - 1]); assert forall|j: int| 0 <= j < 7 implies b_unknown()[j] != 10u8 by {} }
    }
}

// [props: C12]
/// the byte that follows the CR, the 107-byte limit, invalid UTF-8 - through the entry points: a complete line whose
/// byte after the first CR is not LF is never accepted and never incomplete (C18's condition holds); an input without
/// CR within 107 bytes, or with its first CR at index 106 or beyond, is `HeaderTooLong`; a window that is not valid
/// UTF-8 while a CR has arrived is `InvalidUtf8`
pub proof fn lemma_c12_v1_line_end(s: Seq<u8>)
    ensures
        v1_too_long(s) ==> entry_verdict_str(s) == V1V::Reject(V1K::HeaderTooLong) && entry_verdict_bytes(s) == V1BV::Line(V1V::Reject(V1K::HeaderTooLong)),
        !v1_too_long(s) && first_index_of(s, 13u8) < s.len() && !valid_utf8(v1_window(s)) ==> entry_verdict_bytes(s) is InvalidUtf8,
        v1_terminated(s) && !v1_too_long(s) && s[first_index_of(s, 13u8) + 1] != 10u8 ==>
            !(header_verdict(v1_window(s)) is Accept) && !v1v_incomplete(header_verdict(v1_window(s))),
{
    broadcast use crate::prelude::prelude_str_axioms;
    lemma_first_index_bounds(s, 13u8);
    if v1_terminated(s) && !v1_too_long(s) && s[first_index_of(s, 13u8) + 1] != 10u8 {
        let w = v1_window(s);
        let cr = first_index_of(s, 13u8);
        assert(w.len() == cr + 2);
        assert(w[cr + 1] == s[cr + 1]);
        lemma_first_index_prefix(s, cr + 2, 13u8);
        assert(v1_terminated(w));
        if header_verdict(w) is Accept {
            lemma_accept_shape(w);
            assert(w.subrange(w.len() - 2, w.len() as int)[1] == 10u8);
        }
    }
}

// ======================================================================================
// C05, last sentence: a receiver that re-parses its growing buffer ends with the one-shot result however the stream is
// split into reads - every buffer shorter than the header is incomplete, every buffer that contains it has the verdict
// of the whole input
// ======================================================================================

// [props: C05 C04]
/// v1, byte entry point: `i` is accepted with addresses `a`; `k` bytes of it have arrived
pub proof fn lemma_c05_stream_v1_bytes(i: Seq<u8>, a: V1Addresses, k: int)
    requires entry_verdict_bytes(i) == V1BV::Line(V1V::Accept(a)), 0 <= k <= i.len()
    ensures
        k < v1_window(i).len() ==> v1bv_incomplete(entry_verdict_bytes(i.subrange(0, k))),
        k >= v1_window(i).len() ==> entry_verdict_bytes(i.subrange(0, k)) == entry_verdict_bytes(i),
{
    broadcast use crate::prelude::prelude_str_axioms;
    let w = v1_window(i);
    lemma_bytes_accept_window(i);
    lemma_window_accept(i);
    lemma_first_index_bounds(i, 13u8);
    lemma_c04_v1_bytes(i, Seq::<u8>::empty());
    assert(entry_verdict_bytes(w) == entry_verdict_bytes(i));
    // the window is a well-formed line (C01, verdict ==> statement) and valid UTF-8
    assert(line_verdict(w) == V1V::Accept(a));
    lemma_first_index_prefix(i, w.len() as int, 13u8);
    match a {
        V1Addresses::Unknown => { lemma_accepted_unknown_wf(w); },
        V1Addresses::Tcp4(x) => { lemma_accepted_tcp4_wf(w, x); },
        V1Addresses::Tcp6(x) => { lemma_accepted_tcp6_wf(w, x); },
    }
    assert(wf_line(w, a));
    assert(vstd::utf8::valid_utf8(w)) by { reveal(valid_utf8); };
    if k < w.len() {
        assert(i.subrange(0, k) =~= w.subrange(0, k));
        lemma_c05_v1_bytes(w, a, k);
    } else {
        let t = i.subrange(w.len() as int, k);
        assert(i.subrange(0, k) =~= w + t);
        lemma_c04_v1_bytes(w, t);
    }
}

// [props: C05 C04]
/// v2: `i` is accepted; `k` bytes of it have arrived
pub proof fn lemma_c05_stream_v2(i: Seq<u8>, k: int)
    requires v2_accepts(i), 0 <= k <= i.len()
    ensures
        k < v2_total(i) ==> v2_class(i.subrange(0, k)) == 1,
        k >= v2_total(i) ==> v2_accepts(i.subrange(0, k)) && v2_total(i.subrange(0, k)) == v2_total(i),
{
    let s = i.subrange(0, k);
    let n = v2_total(i);
    if k < n {
        if k < 12 {
            assert(s =~= v2_sig().subrange(0, k)) by {
                assert(i.subrange(0, 12) =~= v2_sig());
                assert forall|j: int| 0 <= j < k implies s[j] == v2_sig().subrange(0, k)[j] by { assert(i.subrange(0, 12)[j] == i[j]); }
            }
        } else if k < 16 {
            assert(s.subrange(0, 12) =~= i.subrange(0, 12));
        } else {
            assert(s.subrange(0, 12) =~= i.subrange(0, 12));
            assert(s[12] == i[12] && s[13] == i[13] && s[14] == i[14] && s[15] == i[15]);
        }
        assert(v2_class(s) == 1);
    } else {
        assert(s.subrange(0, 12) =~= i.subrange(0, 12));
        assert(s[12] == i[12] && s[13] == i[13] && s[14] == i[14] && s[15] == i[15]);
    }
}
