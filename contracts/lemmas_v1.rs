// ======================================================================================
// v1: structure of the split model and what an accepting verdict implies about the line.
// ======================================================================================

pub proof fn lemma_first_sep_bounds(s: Seq<u8>)
    ensures
        0 <= first_sep(s) <= s.len(),
        first_sep(s) < s.len() ==> is_sep(s[first_sep(s)]),
        forall|j: int| 0 <= j < first_sep(s) ==> !is_sep(#[trigger] s[j]),
    decreases s.len()
{
    if s.len() > 0 && !is_sep(s[0]) {
        let t = s.subrange(1, s.len() as int);
        lemma_first_sep_bounds(t);
        assert forall|j: int| 0 <= j < first_sep(s) implies !is_sep(#[trigger] s[j]) by {
            if j > 0 { assert(t[j - 1] == s[j]); }
        }
    }
}

/// the first separator is where a separator stands with none before it
pub proof fn lemma_first_sep_is(s: Seq<u8>, i: int)
    requires 0 <= i <= s.len(), i < s.len() ==> is_sep(s[i]), forall|j: int| 0 <= j < i ==> !is_sep(#[trigger] s[j])
    ensures first_sep(s) == i
{
    lemma_first_sep_bounds(s);
    let f = first_sep(s);
    if f < i { assert(!is_sep(s[f])); }
    if i < f { assert(!is_sep(s[i])); }
}

/// one unfolding of the split: the first piece, and the pieces of the rest
pub proof fn lemma_split_unfold(s: Seq<u8>, n: nat)
    requires n >= 2
    ensures
        first_sep(s) >= s.len() ==> splitn_spec(s, n) =~= seq![s],
        first_sep(s) < s.len() ==> splitn_spec(s, n) =~= seq![s.subrange(0, first_sep(s))] + splitn_spec(s.subrange(first_sep(s) + 1, s.len() as int), (n - 1) as nat),
        splitn_spec(s, n).len() >= 1,
        splitn_spec(s, n)[0] =~= s.subrange(0, first_sep(s)),
{
    lemma_first_sep_bounds(s);
    if first_sep(s) >= s.len() {
        assert(s.subrange(0, s.len() as int) =~= s);
    }
}

pub proof fn lemma_split_len(s: Seq<u8>, n: nat)
    requires n >= 1
    ensures 1 <= splitn_spec(s, n).len() <= n
    decreases n
{
    if n >= 2 {
        lemma_first_sep_bounds(s);
        if first_sep(s) < s.len() {
            lemma_split_len(s.subrange(first_sep(s) + 1, s.len() as int), (n - 1) as nat);
        }
    }
}

/// the pieces of `f ++ [sep] ++ rest` are `f` followed by the pieces of `rest`
pub proof fn lemma_split_cons(f: Seq<u8>, c: u8, rest: Seq<u8>, n: nat)
    requires no_sep(f), is_sep(c), n >= 2
    ensures splitn_spec(f + seq![c] + rest, n) =~= seq![f] + splitn_spec(rest, (n - 1) as nat)
{
    let s = f + seq![c] + rest;
    assert(s[f.len() as int] == c);
    assert forall|j: int| 0 <= j < f.len() implies !is_sep(#[trigger] s[j]) by { assert(s[j] == f[j]); }
    lemma_first_sep_is(s, f.len() as int);
    lemma_split_unfold(s, n);
    assert(s.subrange(0, f.len() as int) =~= f);
    assert(s.subrange(f.len() as int + 1, s.len() as int) =~= rest);
}

/// positions of the first two pieces of a line that has at least two pieces
pub proof fn lemma_split_two(w: Seq<u8>, n: nat)
    requires n >= 3, splitn_spec(w, n).len() >= 2
    ensures ({
        let parts = splitn_spec(w, n);
        let a = parts[0].len() as int; let b = parts[1].len() as int;
        &&& a + 1 + b <= w.len()
        &&& w.subrange(0, a) =~= parts[0] && is_sep(w[a]) && w.subrange(a + 1, a + 1 + b) =~= parts[1]
        &&& no_sep(parts[0]) && (parts.len() >= 3 ==> no_sep(parts[1]) && a + 1 + b < w.len() && is_sep(w[a + 1 + b]))
        &&& (parts.len() == 2 ==> a + 1 + b == w.len())
        &&& (parts.len() >= 3 ==> parts.subrange(2, parts.len() as int) =~= splitn_spec(w.subrange(a + 2 + b, w.len() as int), (n - 2) as nat))
    }),
{
    lemma_first_sep_bounds(w);
    lemma_split_unfold(w, n);
    let f0 = first_sep(w);
    let parts = splitn_spec(w, n);
    if f0 >= w.len() {
        assert(parts.len() == 1);
    } else {
        let r1 = w.subrange(f0 + 1, w.len() as int);
        let p1s = splitn_spec(r1, (n - 1) as nat);
        assert(parts =~= seq![w.subrange(0, f0)] + p1s);
        assert(parts[1] == p1s[0]);
        lemma_first_sep_bounds(r1);
        lemma_split_unfold(r1, (n - 1) as nat);
        let f1 = first_sep(r1);
        assert(p1s[0] =~= r1.subrange(0, f1));
        assert(r1.subrange(0, f1) =~= w.subrange(f0 + 1, f0 + 1 + f1));
        assert forall|j: int| 0 <= j < f0 implies !is_sep(#[trigger] w.subrange(0, f0)[j]) by { assert(w.subrange(0, f0)[j] == w[j]); }
        if f1 >= r1.len() {
            assert(p1s.len() == 1);
            assert(parts.len() == 2);
        } else {
            let r2 = r1.subrange(f1 + 1, r1.len() as int);
            lemma_split_len(r2, (n - 2) as nat);
            assert(p1s =~= seq![r1.subrange(0, f1)] + splitn_spec(r2, (n - 2) as nat));
            assert(parts.len() >= 3);
            assert(r1[f1] == w[f0 + 1 + f1]);
            assert forall|j: int| 0 <= j < f1 implies !is_sep(#[trigger] r1.subrange(0, f1)[j]) by { assert(r1.subrange(0, f1)[j] == r1[j]); }
            assert(r2 =~= w.subrange(f0 + 2 + f1, w.len() as int));
            assert(parts.subrange(2, parts.len() as int) =~= splitn_spec(r2, (n - 2) as nat));
        }
    }
}

// [props: C03 C04 C15]
/// the shape of an accepted line from what the parser has SEEN (independent of the verdict function, hence of the
/// accepted language): first piece `PROXY`, a second piece equal to the protocol keyword of the addresses, CRLF at the end
pub broadcast proof fn lemma_shape_from_parts(w: Seq<u8>, a: V1Addresses)
    ensures
        splitn_spec(w, 7).len() >= 2 && splitn_spec(w, 7)[0] =~= b_proxy() && splitn_spec(w, 7)[1] =~= v1_protocol_bytes(a)
        && is_suffix_of(b_crlf(), w) ==> #[trigger] v1_accept_shape0(w, a)
{
    let parts = splitn_spec(w, 7);
    if parts.len() >= 2 && parts[0] =~= b_proxy() && parts[1] =~= v1_protocol_bytes(a) && is_suffix_of(b_crlf(), w) {
        lemma_split_len(w, 7);
        lemma_split_two(w, 7);
        let p = v1_protocol_bytes(a);
        let n = w.len() as int;
        assert(w.subrange(n - 2, n)[0] == 13u8 && w.subrange(n - 2, n)[1] == 10u8);
        assert(w[n - 2] == 13u8 && w[n - 1] == 10u8);
        let k = 6 + p.len() as int;
        // the keyword contains no CR, so the line cannot end inside or right after it
        assert forall|j: int| 0 <= j < p.len() implies p[j] != 13u8 && p[j] != 10u8 && !is_sep(p[j]) by {}
        assert forall|j: int| 0 <= j < 5 implies b_proxy()[j] != 13u8 by {}
        if parts.len() == 2 {
            // w == PROXY sep KEYWORD exactly: its last two bytes are keyword bytes, not CRLF
            assert(n == k);
            assert(w.subrange(6, k)[p.len() - 2] == w[n - 2]);
            assert(false);
        }
        assert(is_sep(w[k]));
        if n < k + 2 {
            // n == k + 1: w[n-2] is the last keyword byte
            assert(w.subrange(6, k)[p.len() - 1] == w[n - 2]);
            assert(false);
        }
    }
}

// [props: C03 C15]
/// an accepting verdict pins the shape of the line: `PROXY`, a separator, the protocol
/// keyword, a separator, ..., CRLF, at most 107 bytes
pub broadcast proof fn lemma_accept_shape(w: Seq<u8>)
    ensures (#[trigger] line_verdict(w)) matches V1V::Accept(a) ==> v1_accept_shape(w, a)
{
    if let V1V::Accept(a) = line_verdict(w) {
        let parts = splitn_spec(w, 7);
        lemma_split_len(w, 7);
        assert(parts[0] =~= b_proxy());
        assert(parts.len() >= 2);
        let p = v1_protocol_bytes(a);
        assert(parts[1] =~= p);
        assert(is_suffix_of(b_crlf(), w)) by {
            if !(a is Unknown) { assert(tcp_tail_kind(w, parts) is None); }
        }
        lemma_shape_from_parts(w, a);
    }
}

// [props: C15]
/// for a window (CR only as its last-but-one byte) the separators inside the line are spaces
pub proof fn lemma_window_separators(w: Seq<u8>, i: int)
    requires first_index_of(w, 13u8) + 2 == w.len(), 0 <= i < w.len() - 2, is_sep(w[i])
    ensures w[i] == 32u8
{
    broadcast use crate::prelude::prelude_str_axioms;
    lemma_first_index_bounds(w, 13u8);
}

pub broadcast group v1_shape_lemmas { lemma_accept_shape, lemma_shape_from_parts }
