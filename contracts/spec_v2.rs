// ======================================================================================
// PROXY protocol v2: specification functions written from the property statements
// (C02, C04, C05, C12, C14, C17).  Nothing in this file is executable and nothing in it is
// taken from the implementation: sequences of bytes in, mathematical values out.
// ======================================================================================

pub use crate::v2::{AddressFamily, Command, Protocol, Version};
pub use crate::v2::ParseError as V2Error;
pub use crate::v2::Addresses as V2Addresses;
pub use crate::v2::Header as V2Header;

/// The 12-byte v2 signature  \r \n \r \n \0 \r \n Q U I T \n
pub open spec fn v2_sig() -> Seq<u8> {
    seq![13u8, 10u8, 13u8, 10u8, 0u8, 13u8, 10u8, 81u8, 85u8, 73u8, 84u8, 10u8]
}

pub open spec fn hi_nib(b: u8) -> u8 { b & 0xF0u8 }
pub open spec fn lo_nib(b: u8) -> u8 { b & 0x0Fu8 }

/// size of the address block of the family whose (in-place) nibble is `f`
pub open spec fn fam_size(f: u8) -> int {
    if f == 0x10u8 { 12 } else if f == 0x20u8 { 36 } else if f == 0x30u8 { 216 } else { 0 }
}
pub open spec fn fam_valid(f: u8) -> bool { f == 0x00u8 || f == 0x10u8 || f == 0x20u8 || f == 0x30u8 }
pub open spec fn proto_valid(p: u8) -> bool { p == 0x00u8 || p == 0x01u8 || p == 0x02u8 }
pub open spec fn cmd_valid(c: u8) -> bool { c == 0x00u8 || c == 0x01u8 }
pub open spec fn ver_valid(v: u8) -> bool { v == 0x20u8 }

pub open spec fn fam_of(f: u8) -> AddressFamily {
    if f == 0x10u8 { AddressFamily::IPv4 } else if f == 0x20u8 { AddressFamily::IPv6 }
    else if f == 0x30u8 { AddressFamily::Unix } else { AddressFamily::Unspecified }
}
pub open spec fn fam_code(f: AddressFamily) -> u8 {
    match f { AddressFamily::Unspecified => 0x00u8, AddressFamily::IPv4 => 0x10u8,
              AddressFamily::IPv6 => 0x20u8, AddressFamily::Unix => 0x30u8 }
}
pub open spec fn proto_of(p: u8) -> Protocol {
    if p == 0x01u8 { Protocol::Stream } else if p == 0x02u8 { Protocol::Datagram } else { Protocol::Unspecified }
}
pub open spec fn proto_code(p: Protocol) -> u8 {
    match p { Protocol::Unspecified => 0u8, Protocol::Stream => 1u8, Protocol::Datagram => 2u8 }
}
pub open spec fn cmd_of(c: u8) -> Command { if c == 0x01u8 { Command::Proxy } else { Command::Local } }
pub open spec fn cmd_code(c: Command) -> u8 { match c { Command::Local => 0u8, Command::Proxy => 1u8 } }

/// the fixed 16-byte part is present and the signature matches
pub open spec fn v2_fixed_ok(s: Seq<u8>) -> bool {
    s.len() >= 16 && s.subrange(0, 12) =~= v2_sig()
}
pub open spec fn v2_declared_len(s: Seq<u8>) -> int
    recommends s.len() >= 16
{ be16(s[14], s[15]) }

/// the two control bytes and the length field are valid (C02: nibbles in range, length at
/// least the family's address block)
pub open spec fn v2_controls_ok(s: Seq<u8>) -> bool
    recommends s.len() >= 16
{
    ver_valid(hi_nib(s[12])) && cmd_valid(lo_nib(s[12]))
    && fam_valid(hi_nib(s[13])) && proto_valid(lo_nib(s[13]))
    && v2_declared_len(s) >= fam_size(hi_nib(s[13]))
}

/// C02, first sentence: the acceptance condition, word for word.
pub open spec fn v2_accepts(s: Seq<u8>) -> bool {
    v2_fixed_ok(s) && v2_controls_ok(s) && s.len() >= 16 + v2_declared_len(s)
}

/// total size of an accepted header
pub open spec fn v2_total(s: Seq<u8>) -> int
    recommends s.len() >= 16
{ 16 + v2_declared_len(s) }

// ---- address block decoding (network order, source before destination) -----------------
pub open spec fn v2_addr_matches(a: V2Addresses, f: u8, b: Seq<u8>) -> bool {
    if f == 0x10u8 {
        b.len() >= 12 && (a matches V2Addresses::IPv4(x)
        && v4_octets(x.source_address) =~= b.subrange(0, 4)
        && v4_octets(x.destination_address) =~= b.subrange(4, 8)
        && x.source_port as int == be16(b[8], b[9])
        && x.destination_port as int == be16(b[10], b[11]))
    } else if f == 0x20u8 {
        b.len() >= 36 && (a matches V2Addresses::IPv6(x)
        && v6_octets(x.source_address) =~= b.subrange(0, 16)
        && v6_octets(x.destination_address) =~= b.subrange(16, 32)
        && x.source_port as int == be16(b[32], b[33])
        && x.destination_port as int == be16(b[34], b[35]))
    } else if f == 0x30u8 {
        b.len() >= 216 && (a matches V2Addresses::Unix(x)
        && x.source@ =~= b.subrange(0, 108)
        && x.destination@ =~= b.subrange(108, 216))
    } else {
        a == V2Addresses::Unspecified
    }
}

/// C02, second sentence: what an accepted header reports.
pub open spec fn v2_decoded(h: V2Header, s: Seq<u8>) -> bool
    recommends v2_accepts(s)
{
    h.header@ =~= s.subrange(0, v2_total(s))
    && h.version == Version::Two
    && h.command == cmd_of(lo_nib(s[12]))
    && h.protocol == proto_of(lo_nib(s[13]))
    && v2_addr_matches(h.addresses, hi_nib(s[13]), s.subrange(16, 16 + fam_size(hi_nib(s[13]))))
}

/// [C02] postcondition of the v2 parser
pub open spec fn c02_post(s: Seq<u8>, r: Result<V2Header, V2Error>) -> bool {
    (r is Ok <==> v2_accepts(s))
    && (r matches Ok(h) ==> v2_decoded(h, s))
}

// ---- incomplete / terminal classification --------------------------------------------
pub open spec fn v2_err_incomplete(e: V2Error) -> bool {
    e is Incomplete || e is Partial
}
pub open spec fn v2_res_incomplete(r: Result<V2Header, V2Error>) -> bool {
    r matches Err(e) && v2_err_incomplete(e)
}

/// `s` is a proper prefix of some accepted header (characterised without the existential;
/// lemma_prefix_char proves the two directions)
pub open spec fn v2_proper_prefix_of_accepted(s: Seq<u8>) -> bool {
    if s.len() < 12 { s =~= v2_sig().subrange(0, s.len() as int) }
    else if s.len() < 16 {
        s.subrange(0, 12) =~= v2_sig()
        && (s.len() > 12 ==> ver_valid(hi_nib(s[12])) && cmd_valid(lo_nib(s[12])))
        && (s.len() > 13 ==> fam_valid(hi_nib(s[13])) && proto_valid(lo_nib(s[13])))
        && (s.len() > 14 ==> s.len() == 15 && {
                // some low length byte must make the length large enough: 256*hi + 255 >= size
                (s[14] as int) * 256 + 255 >= fam_size(hi_nib(s[13])) })
    }
    else { v2_fixed_ok(s) && v2_controls_ok(s) && s.len() < 16 + v2_declared_len(s) }
}

/// [C05] every proper prefix of an accepted header is reported incomplete
pub open spec fn c05_v2_post(s: Seq<u8>, r: Result<V2Header, V2Error>) -> bool {
    v2_proper_prefix_of_accepted(s) ==> v2_res_incomplete(r)
}

/// [C17] the counts carried by the incomplete results are exact, and a `Partial` is only
/// ever reported for a header that nothing but missing bytes separates from acceptance
pub open spec fn c17_post(s: Seq<u8>, r: Result<V2Header, V2Error>) -> bool {
    (r matches Err(V2Error::Incomplete(n)) ==> n as int == s.len() && s.len() < 16)
    && (r matches Err(V2Error::Partial(a, b)) ==>
            s.len() >= 16 && a as int == s.len() - 16 && b as int == v2_declared_len(s) && (a as int) < (b as int))
    // before the fixed part is complete nothing but `Incomplete` is an incomplete result,
    // afterwards nothing but `Partial`
    && (v2_res_incomplete(r) && s.len() < 16 ==> r matches Err(V2Error::Incomplete(_)))
    && (v2_res_incomplete(r) && s.len() >= 16 ==> r matches Err(V2Error::Partial(_, _)))
}

/// a `Partial` is only ever reported for a header that nothing but missing bytes separates from acceptance BY THE
/// GRAMMAR OF C02 (stronger than C17: which control bytes are valid is C02's business)
pub open spec fn c17_controls_post(s: Seq<u8>, r: Result<V2Header, V2Error>) -> bool {
    r matches Err(V2Error::Partial(_, _)) ==> v2_fixed_ok(s) && v2_controls_ok(s)
}

/// [C12] one malformed element in an otherwise complete, well-formed header:
/// terminal error naming that element (carrying the offending nibble in place / the
/// length and the required size)
pub open spec fn c12_v2_post(s: Seq<u8>, r: Result<V2Header, V2Error>) -> bool {
    // (a) signature altered, everything else in place
    (s.len() >= 16 && !(s.subrange(0, 12) =~= v2_sig()) ==> r == Err::<V2Header, V2Error>(V2Error::Prefix))
    && (v2_fixed_ok(s) && s.len() >= 16 + v2_declared_len(s) ==> {
        let v = hi_nib(s[12]); let c = lo_nib(s[12]); let f = hi_nib(s[13]); let p = lo_nib(s[13]);
        let len = v2_declared_len(s);
        // (b) exactly one control nibble invalid
        (!ver_valid(v) && cmd_valid(c) && fam_valid(f) && proto_valid(p) && len >= fam_size(f)
            ==> r == Err::<V2Header, V2Error>(V2Error::Version(v)))
        && (ver_valid(v) && !cmd_valid(c) && fam_valid(f) && proto_valid(p) && len >= fam_size(f)
            ==> r == Err::<V2Header, V2Error>(V2Error::Command(c)))
        && (ver_valid(v) && cmd_valid(c) && !fam_valid(f) && proto_valid(p)
            ==> r == Err::<V2Header, V2Error>(V2Error::AddressFamily(f)))
        && (ver_valid(v) && cmd_valid(c) && fam_valid(f) && !proto_valid(p) && len >= fam_size(f)
            ==> r == Err::<V2Header, V2Error>(V2Error::Protocol(p)))
        // (c) declared length too small for the family
        && (ver_valid(v) && cmd_valid(c) && fam_valid(f) && proto_valid(p) && len < fam_size(f)
            ==> r == Err::<V2Header, V2Error>(V2Error::InvalidAddresses(len as usize, fam_size(f) as usize)))
    })
}

// ---- the complete functional behaviour (determinism; used by callers, tag FUNC) -----------
pub open spec fn v2_spec_err(s: Seq<u8>) -> Option<V2Error> {
    if s.len() < 12 {
        if s =~= v2_sig().subrange(0, s.len() as int) { Some(V2Error::Incomplete(s.len() as usize)) } else { Some(V2Error::Prefix) }
    } else if !(s.subrange(0, 12) =~= v2_sig()) { Some(V2Error::Prefix) }
    else if s.len() < 16 { Some(V2Error::Incomplete(s.len() as usize)) }
    else if !ver_valid(hi_nib(s[12])) { Some(V2Error::Version(hi_nib(s[12]))) }
    else if !cmd_valid(lo_nib(s[12])) { Some(V2Error::Command(lo_nib(s[12]))) }
    else if !fam_valid(hi_nib(s[13])) { Some(V2Error::AddressFamily(hi_nib(s[13]))) }
    else if !proto_valid(lo_nib(s[13])) { Some(V2Error::Protocol(lo_nib(s[13]))) }
    else if v2_declared_len(s) < fam_size(hi_nib(s[13])) {
        Some(V2Error::InvalidAddresses(v2_declared_len(s) as usize, fam_size(hi_nib(s[13])) as usize)) }
    else if s.len() < 16 + v2_declared_len(s) {
        Some(V2Error::Partial((s.len() - 16) as usize, v2_declared_len(s) as usize)) }
    else { None }
}

/// class of the v2 verdict: 0 = accepted, 1 = incomplete, 2 = terminal error
pub open spec fn v2_class(s: Seq<u8>) -> int {
    match v2_spec_err(s) { None => 0, Some(e) => if v2_err_incomplete(e) { 1 } else { 2 } }
}

pub open spec fn v2_func_post(s: Seq<u8>, r: Result<V2Header, V2Error>) -> bool {
    match v2_spec_err(s) {
        Some(e) => r == Err::<V2Header, V2Error>(e),
        None => r matches Ok(h) && v2_decoded(h, s),
    }
}

// ---- well-formedness of a header value (what the parser returns; accessor precondition) ----
pub open spec fn v2_header_wf(h: V2Header) -> bool {
    let s = h.header@;
    v2_accepts(s) && s.len() == v2_total(s) && v2_decoded(h, s)
}

pub open spec fn v2_family_of_addresses(a: V2Addresses) -> AddressFamily {
    match a {
        V2Addresses::Unspecified => AddressFamily::Unspecified,
        V2Addresses::IPv4(_) => AddressFamily::IPv4,
        V2Addresses::IPv6(_) => AddressFamily::IPv6,
        V2Addresses::Unix(_) => AddressFamily::Unix,
    }
}

/// end of the address view inside an accepted header: 16 + family size; the whole payload
/// for the unspecified family (C14)
pub open spec fn v2_addr_end(s: Seq<u8>) -> int
    recommends s.len() >= 16
{
    if hi_nib(s[13]) == 0x00u8 { s.len() as int } else { 16 + fam_size(hi_nib(s[13])) }
}

/// what the v2 accessors need in order not to panic: the fixed part is present and the payload
/// holds the address block of the family of the decoded addresses
pub open spec fn v2_header_safe(h: V2Header) -> bool {
    h.header@.len() >= 16 + fam_size(fam_code(v2_family_of_addresses(h.addresses)))
    && h.header@.len() <= 0x7fff_ffff_ffff_ffff
}

/// end of the address view as computed from the decoded address value (what the accessors use)
pub open spec fn v2_addr_end_of(s: Seq<u8>, a: V2Addresses) -> int {
    if a is Unspecified { s.len() as int } else { 16 + fam_size(fam_code(v2_family_of_addresses(a))) }
}
