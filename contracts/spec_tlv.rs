// ======================================================================================
// TLV section: the standard type-length-value walk (C11), written from the statement.
// ======================================================================================

/// one decoded item of the walk
pub enum TlvItem {
    /// a complete TLV: type byte and value bytes
    Tlv { kind: u8, value: Seq<u8> },
    /// fewer than three bytes remain
    Short,
    /// the declared value runs past the end of the section
    Overrun { kind: u8, declared: int },
}

/// result of reading one item at offset `off` of section `s`: None when nothing remains
pub open spec fn tlv_step(s: Seq<u8>, off: int) -> Option<(TlvItem, int)>
    recommends 0 <= off
{
    if off >= s.len() { None }
    else if s.len() - off < 3 { Some((TlvItem::Short, s.len() as int)) }
    else {
        let kind = s[off];
        let declared = be16(s[off + 1], s[off + 2]);
        if s.len() - off < 3 + declared { Some((TlvItem::Overrun { kind, declared }, s.len() as int)) }
        else { Some((TlvItem::Tlv { kind, value: s.subrange(off + 3, off + 3 + declared) }, off + 3 + declared)) }
    }
}

/// the whole walk from offset `off`
pub open spec fn tlv_walk(s: Seq<u8>, off: int) -> Seq<TlvItem>
    decreases s.len() - off
{
    if off < 0 { Seq::empty() } else {
    match tlv_step(s, off) {
        None => Seq::empty(),
        Some((item, next)) =>
            if next > off { seq![item] + tlv_walk(s, next) } else { seq![item] },
    } }
}

/// does the iterator's item `r` (an exec value) denote the walk item `it`?
pub open spec fn tlv_item_matches(r: Result<crate::v2::TypeLengthValue, crate::v2::ParseError>, it: TlvItem) -> bool {
    match it {
        TlvItem::Tlv { kind, value } => (r matches Ok(t) && t.kind == kind && t.value@ =~= value),
        TlvItem::Short => (r matches Err(crate::v2::ParseError::Leftovers(_))),
        TlvItem::Overrun { kind, declared } =>
            (r matches Err(crate::v2::ParseError::InvalidTLV(k, l)) && k == kind && l as int == declared),
    }
}

/// [C11] postcondition of one `next()` call at cursor `off`, new cursor `off2`
pub open spec fn c11_next_post(s: Seq<u8>, off: int, r: Option<Result<crate::v2::TypeLengthValue, crate::v2::ParseError>>, off2: int) -> bool {
    match tlv_step(s, off) {
        None => r is None && off2 == off,
        Some((item, next)) => (r matches Some(x) && tlv_item_matches(x, item)) && off2 == next,
    }
}

/// registered PP2 TLV type codes (PROXY protocol specification, section 2.2)
pub open spec fn tlv_type_code(t: crate::v2::Type) -> u8 {
    match t {
        crate::v2::Type::ALPN => 0x01u8,
        crate::v2::Type::Authority => 0x02u8,
        crate::v2::Type::CRC32C => 0x03u8,
        crate::v2::Type::NoOp => 0x04u8,
        crate::v2::Type::UniqueId => 0x05u8,
        crate::v2::Type::SSL => 0x20u8,
        crate::v2::Type::SSLVersion => 0x21u8,
        crate::v2::Type::SSLCommonName => 0x22u8,
        crate::v2::Type::SSLCipher => 0x23u8,
        crate::v2::Type::SSLSignatureAlgorithm => 0x24u8,
        crate::v2::Type::SSLKeyAlgorithm => 0x25u8,
        crate::v2::Type::NetworkNamespace => 0x30u8,
    }
}
