// ======================================================================================
// Lemmas over the v2 specification functions.  Each lemma takes the per-call postconditions
// that Verus proves on the real `v2::Header::try_from` as hypotheses about arbitrary results
// r1, r2, ... and derives the multi-call statement of a property.  Nothing here mentions
// the implementation.
// ======================================================================================

pub proof fn lemma_prefix_same_fixed(h: Seq<u8>, t: Seq<u8>)
    requires h.len() >= 16
    ensures
        (h + t).subrange(0, 12) =~= h.subrange(0, 12),
        (h + t)[12] == h[12], (h + t)[13] == h[13], (h + t)[14] == h[14], (h + t)[15] == h[15],
        v2_fixed_ok(h + t) == v2_fixed_ok(h),
        v2_controls_ok(h + t) == v2_controls_ok(h),
        v2_declared_len(h + t) == v2_declared_len(h),
{
}

/// two address values that decode the same bytes for the same family are equal
pub proof fn lemma_addr_unique(a1: V2Addresses, a2: V2Addresses, f: u8, b: Seq<u8>)
    requires v2_addr_matches(a1, f, b), v2_addr_matches(a2, f, b)
    ensures a1 == a2
{
    broadcast use crate::prelude::prelude_axioms;
    if f == 0x10u8 {
    } else if f == 0x20u8 {
    } else if f == 0x30u8 {
        let x = a1->Unix_0; let y = a2->Unix_0;
        assert(x.source@ =~= y.source@);
        assert(x.destination@ =~= y.destination@);
        assert(x.source == y.source);
        assert(x.destination == y.destination);
    } else {
    }
}

// [props: C04]
/// an accepted header followed by any bytes is accepted with an identical result, the
/// reported bytes on their own are accepted with an identical result, and exactly
/// 16 + declared length bytes are reported
#[verifier::rlimit(60)]
pub proof fn lemma_c04_v2(h: Seq<u8>, t: Seq<u8>, r1: Result<V2Header, V2Error>, r2: Result<V2Header, V2Error>, r3: Result<V2Header, V2Error>)
    requires
        c02_post(h, r1), r1 is Ok,
        c02_post(h + t, r2),
        c02_post(r1->Ok_0.header@, r3),
    ensures
        r2 is Ok, r3 is Ok,
        r1->Ok_0.header@.len() == 16 + v2_declared_len(h),
        r2->Ok_0.header@ == r1->Ok_0.header@, r3->Ok_0.header@ == r1->Ok_0.header@,
        r2->Ok_0.version == r1->Ok_0.version, r3->Ok_0.version == r1->Ok_0.version,
        r2->Ok_0.command == r1->Ok_0.command, r3->Ok_0.command == r1->Ok_0.command,
        r2->Ok_0.protocol == r1->Ok_0.protocol, r3->Ok_0.protocol == r1->Ok_0.protocol,
        r2->Ok_0.addresses == r1->Ok_0.addresses, r3->Ok_0.addresses == r1->Ok_0.addresses,
{
    lemma_prefix_same_fixed(h, t);
    let total = v2_total(h);
    let h1 = r1->Ok_0;
    let f = hi_nib(h[13]);
    // (h + t)[..total] == h[..total]
    assert((h + t).subrange(0, total) =~= h.subrange(0, total));
    assert((h + t).subrange(16, 16 + fam_size(f)) =~= h.subrange(16, 16 + fam_size(f)));
    lemma_addr_unique(r2->Ok_0.addresses, h1.addresses, f, h.subrange(16, 16 + fam_size(f)));
    // the reported bytes on their own
    let p = h1.header@;
    assert(p =~= h.subrange(0, total));
    assert(p.subrange(0, 12) =~= h.subrange(0, 12));
    assert(p[12] == h[12] && p[13] == h[13] && p[14] == h[14] && p[15] == h[15]);
    assert(v2_accepts(p));
    assert(p.subrange(0, v2_total(p)) =~= p);
    assert(p.subrange(16, 16 + fam_size(f)) =~= h.subrange(16, 16 + fam_size(f)));
    lemma_addr_unique(r3->Ok_0.addresses, h1.addresses, f, h.subrange(16, 16 + fam_size(f)));
}

/// what the parser returns is a well-formed header value (precondition of the accessors)
pub proof fn lemma_ok_is_wf(s: Seq<u8>, r: Result<V2Header, V2Error>)
    requires c02_post(s, r), r is Ok
    ensures v2_header_wf(r->Ok_0)
{
    let h = r->Ok_0;
    let p = h.header@;
    let total = v2_total(s);
    assert(p =~= s.subrange(0, total));
    assert(p.subrange(0, 12) =~= s.subrange(0, 12));
    assert(p[12] == s[12] && p[13] == s[13] && p[14] == s[14] && p[15] == s[15]);
    assert(p.subrange(0, v2_total(p)) =~= p);
    let f = hi_nib(s[13]);
    assert(p.subrange(16, 16 + fam_size(f)) =~= s.subrange(16, 16 + fam_size(f)));
}

// [props: C05]
/// every proper prefix of an accepted header satisfies the prefix characterisation, hence
/// (by c05_v2_post) is reported incomplete
pub proof fn lemma_c05_v2(h: Seq<u8>, k: int, r: Result<V2Header, V2Error>)
    requires v2_accepts(h), 0 <= k < v2_total(h), c05_v2_post(h.subrange(0, k), r), c02_post(h.subrange(0, k), r)
    ensures v2_res_incomplete(r), !(r is Ok)
{
    let s = h.subrange(0, k);
    if k < 12 {
        assert(s =~= v2_sig().subrange(0, k)) by {
            assert(h.subrange(0, 12) =~= v2_sig());
            assert forall|i: int| 0 <= i < k implies s[i] == v2_sig().subrange(0, k)[i] by {
                assert(h.subrange(0, 12)[i] == h[i]);
            }
        }
    } else if k < 16 {
        assert(s.subrange(0, 12) =~= h.subrange(0, 12));
        if k > 14 {
            assert(s[14] == h[14]);
            assert(s[13] == h[13]);
            assert((h[14] as int) * 256 + 255 >= be16(h[14], h[15]));
        }
    } else {
        assert(s.subrange(0, 12) =~= h.subrange(0, 12));
        assert(s[12] == h[12] && s[13] == h[13] && s[14] == h[14] && s[15] == h[15]);
    }
}

// [props: C05]
/// the prefix characterisation demands nothing beyond the property: every string it
/// describes really is a proper prefix of some accepted header
#[verifier::rlimit(60)]
pub proof fn lemma_c05_v2_tight(s: Seq<u8>) -> (h: Seq<u8>)
    requires v2_proper_prefix_of_accepted(s)
    ensures v2_accepts(h), s.len() < v2_total(h), h.subrange(0, s.len() as int) =~= s
{
    if s.len() < 12 {
        let h = v2_sig() + seq![0x20u8, 0x00u8, 0u8, 0u8];
        assert(h.subrange(0, 12) =~= v2_sig());
        assert(0x20u8 & 0xF0u8 == 0x20u8 && 0x20u8 & 0x0Fu8 == 0x00u8 && 0x00u8 & 0xF0u8 == 0u8 && 0x00u8 & 0x0Fu8 == 0u8) by(bit_vector);
        assert(h.subrange(0, s.len() as int) =~= s);
        h
    } else if s.len() < 16 {
        let vc: u8 = if s.len() > 12 { s[12] } else { 0x20u8 };
        let fp: u8 = if s.len() > 13 { s[13] } else { 0x00u8 };
        let hi: u8 = if s.len() > 14 { s[14] } else { 0xFFu8 };
        let lo: u8 = 0xFFu8;
        let n = be16(hi, lo);
        let fixed = s.subrange(0, 12) + seq![vc, fp, hi, lo];
        let h = fixed + Seq::new(n as nat, |i: int| 0u8);
        assert(0x20u8 & 0xF0u8 == 0x20u8 && 0x20u8 & 0x0Fu8 == 0x00u8 && 0x00u8 & 0xF0u8 == 0u8 && 0x00u8 & 0x0Fu8 == 0u8) by(bit_vector);
        assert(h.subrange(0, 12) =~= s.subrange(0, 12));
        assert(h[12] == vc && h[13] == fp && h[14] == hi && h[15] == lo);
        assert(fam_size(hi_nib(fp)) <= 216);
        assert(h.subrange(0, s.len() as int) =~= s);
        h
    } else {
        let n = v2_declared_len(s);
        let missing = 16 + n - s.len();
        let h = s + Seq::new(missing as nat, |i: int| 0u8);
        lemma_prefix_same_fixed(s, Seq::new(missing as nat, |i: int| 0u8));
        assert(h.subrange(0, s.len() as int) =~= s);
        h
    }
}

// [props: C17]
/// Partial(a, b): exactly b - a more bytes, whatever their values, give a success; fewer
/// leave it Partial(a + k, b)
pub proof fn lemma_c17_completion(s: Seq<u8>, t: Seq<u8>, r: Result<V2Header, V2Error>, r2: Result<V2Header, V2Error>)
    requires
        c17_post(s, r), c17_controls_post(s, r), r matches Err(V2Error::Partial(_, _)),
        c02_post(s + t, r2), c05_v2_post(s + t, r2), c17_post(s + t, r2),
    ensures
        ({ let a = r->Err_0->Partial_0 as int; let b = r->Err_0->Partial_1 as int;
           &&& a == s.len() - 16 && b == v2_declared_len(s) && a < b
           &&& (t.len() >= b - a ==> r2 is Ok)
           &&& (t.len() < b - a ==> r2 == Err::<V2Header, V2Error>(V2Error::Partial((a + t.len()) as usize, b as usize))) }),
{
    lemma_prefix_same_fixed(s, t);
    let a = r->Err_0->Partial_0 as int; let b = r->Err_0->Partial_1 as int;
    if t.len() < b - a {
        assert(v2_proper_prefix_of_accepted(s + t));
        assert(v2_res_incomplete(r2));
        assert(b <= 65535) by { lemma_be16_range(s[14], s[15]); }
    }
}

// [props: C17]
/// Incomplete(n) is only reported before the fixed part is complete and n is the number of
/// bytes supplied; afterwards only Partial is an incomplete result
pub proof fn lemma_c17_incomplete(s: Seq<u8>, r: Result<V2Header, V2Error>)
    requires c17_post(s, r), v2_res_incomplete(r)
    ensures
        s.len() < 16 ==> r == Err::<V2Header, V2Error>(V2Error::Incomplete(s.len() as usize)),
        s.len() >= 16 ==> (r matches Err(V2Error::Partial(a, b)) && a as int == s.len() - 16 && b as int == v2_declared_len(s)),
{
}

pub proof fn lemma_be16_range(a: u8, b: u8)
    ensures 0 <= be16(a, b) <= 65535
{
}

// [props: C12]
/// one altered signature byte in an accepted header: terminal `Prefix`
pub proof fn lemma_c12_v2_signature(h: Seq<u8>, i: int, x: u8, r: Result<V2Header, V2Error>)
    requires v2_accepts(h), 0 <= i < 12, x != h[i], c12_v2_post(h.update(i, x), r)
    ensures r == Err::<V2Header, V2Error>(V2Error::Prefix), !v2_res_incomplete(r)
{
    let m = h.update(i, x);
    assert(h.subrange(0, 12)[i] == h[i]);
    assert(m.subrange(0, 12)[i] == x);
}

// [props: C12]
/// one invalid control nibble / too-small length in an otherwise accepted header: the
/// error names that element and carries the offending value
pub proof fn lemma_c12_v2_controls(h: Seq<u8>, b12: u8, b13: u8, b14: u8, b15: u8, r: Result<V2Header, V2Error>)
    requires
        v2_accepts(h),
        c12_v2_post(h.update(12, b12).update(13, b13).update(14, b14).update(15, b15), r),
        h.len() >= 16 + be16(b14, b15),
    ensures ({
        let v = hi_nib(b12); let c = lo_nib(b12); let f = hi_nib(b13); let p = lo_nib(b13); let len = be16(b14, b15);
        &&& (!ver_valid(v) && cmd_valid(c) && fam_valid(f) && proto_valid(p) && len >= fam_size(f) ==> r == Err::<V2Header, V2Error>(V2Error::Version(v)))
        &&& (ver_valid(v) && !cmd_valid(c) && fam_valid(f) && proto_valid(p) && len >= fam_size(f) ==> r == Err::<V2Header, V2Error>(V2Error::Command(c)))
        &&& (ver_valid(v) && cmd_valid(c) && !fam_valid(f) && proto_valid(p) ==> r == Err::<V2Header, V2Error>(V2Error::AddressFamily(f)))
        &&& (ver_valid(v) && cmd_valid(c) && fam_valid(f) && !proto_valid(p) && len >= fam_size(f) ==> r == Err::<V2Header, V2Error>(V2Error::Protocol(p)))
        &&& (ver_valid(v) && cmd_valid(c) && fam_valid(f) && proto_valid(p) && len < fam_size(f) ==> r == Err::<V2Header, V2Error>(V2Error::InvalidAddresses(len as usize, fam_size(f) as usize)))
    }),
{
    let m = h.update(12, b12).update(13, b13).update(14, b14).update(15, b15);
    assert(m.subrange(0, 12) =~= h.subrange(0, 12));
    assert(m[12] == b12 && m[13] == b13 && m[14] == b14 && m[15] == b15);
    assert(m.len() == h.len());
}

// [props: C14]
/// the address view followed by the TLV view is exactly the payload; sizes add up
pub proof fn lemma_c14_partition(s: Seq<u8>)
    requires v2_accepts(s), s.len() == v2_total(s)
    ensures
        16 <= v2_addr_end(s) <= s.len(),
        s.subrange(16, v2_addr_end(s)) + s.subrange(v2_addr_end(s), s.len() as int) =~= s.subrange(16, s.len() as int),
        hi_nib(s[13]) != 0x00u8 ==> v2_addr_end(s) - 16 == fam_size(hi_nib(s[13])),
        hi_nib(s[13]) == 0x00u8 ==> v2_addr_end(s) == s.len(),
        s.len() - 16 == v2_declared_len(s),
{
}

// [props: C02 C04 C05 C12 C17]
/// consistency (non-vacuity) of the per-property postconditions: the functional
/// specification satisfies all of them at once, for every input
pub proof fn lemma_v2_posts_consistent(s: Seq<u8>, r: Result<V2Header, V2Error>)
    requires v2_func_post(s, r)
    ensures c02_post(s, r), c05_v2_post(s, r), c12_v2_post(s, r), c17_post(s, r), c17_controls_post(s, r)
{
    if s.len() >= 16 {
        lemma_be16_range(s[14], s[15]);
    }
}
