//! Failing-input finder / replayer.  NOT a deciding step: the verdict of every check comes from the
//! verifier.  When Verus reports a failed obligation it gives no model; this program searches a
//! structured set of inputs for one on which the real code (scratch copy of the current tree)
//! disagrees with an executable transcription of the specification functions (contracts/spec_*.rs),
//! so that the violation can be shown against the real code.  `finder <Cxx>` prints one JSON line:
//! {"found":true,"case":..,"expected":..,"actual":..} or {"found":false,"cases":N}.
//! `finder <Cxx> --case <hex>` re-runs one recorded case.
use ppp::v1;
use ppp::v2;
use ppp::{HeaderResult, PartialResult};
use std::net::{Ipv4Addr, Ipv6Addr};

mod oracle;
use oracle::*;
mod props;
use props::*;

fn hex(b: &[u8]) -> String { b.iter().map(|x| format!("{:02x}", x)).collect() }
fn unhex(s: &str) -> Vec<u8> { (0..s.len() / 2).map(|i| u8::from_str_radix(&s[2 * i..2 * i + 2], 16).unwrap()).collect() }

struct Mismatch { case: String, expected: String, actual: String }

// ---------------------------------------------------------------------------------------------
// v1
// ---------------------------------------------------------------------------------------------
fn v1_bases() -> Vec<Vec<u8>> {
    let mut v: Vec<Vec<u8>> = vec![
        b"PROXY TCP4 1.2.3.4 5.6.7.8 80 443\r\n".to_vec(),
        b"PROXY TCP4 255.255.255.255 255.255.255.255 65535 65535\r\n".to_vec(),
        b"PROXY TCP4 0.0.0.0 10.0.0.1 0 1\r\n".to_vec(),
        b"PROXY TCP6 ::1 ffff::2 1 65535\r\n".to_vec(),
        b"PROXY TCP6 ffff:ffff:ffff:ffff:ffff:ffff:ffff:ffff ffff:ffff:ffff:ffff:ffff:ffff:ffff:ffff 65535 65535\r\n".to_vec(),
        b"PROXY UNKNOWN\r\n".to_vec(),
        b"PROXY UNKNOWN \r\n".to_vec(),
        b"PROXY UNKNOWN a b c d e f g\r\n".to_vec(),
        b"PROXY UNKNOWN ffff:ffff:ffff:ffff:ffff:ffff:ffff:ffff ffff:ffff:ffff:ffff:ffff:ffff:ffff:ffff 65535 65535\r\n".to_vec(),
        "PROXY UNKNOWN \u{e9}\u{20ac}\r\n".as_bytes().to_vec(),
    ];
    // lines of 105..109 bytes
    for n in 105..110usize {
        let mut l = b"PROXY UNKNOWN ".to_vec();
        while l.len() < n - 2 { l.push(b'x'); }
        l.extend_from_slice(b"\r\n");
        v.push(l);
    }
    v
}

fn v1_cases() -> Vec<Vec<u8>> {
    let mut out: Vec<Vec<u8>> = Vec::new();
    let alphabet: &[u8] = b" \r\n\t\x0b\x0c,;/%[]+-0125689:.aAfFgxPTU\x00\x7f\xc3\xa9\xff";
    for base in v1_bases() {
        out.push(base.clone());
        for k in 0..base.len() { out.push(base[..k].to_vec()); }                    // every prefix
        for suf in [&b"X"[..], b"\r\n", b"GET / HTTP/1.1\r\n", b"\n", b"\x00", "\u{e9}".as_bytes(), b"PROXY UNKNOWN\r\n"] {
            let mut x = base.clone(); x.extend_from_slice(suf); out.push(x);         // trailing bytes
        }
        if base.len() <= 60 {
            for i in 0..base.len() {                                                  // one byte replaced / inserted / removed
                for &c in alphabet {
                    let mut x = base.clone(); x[i] = c; out.push(x);
                    let mut y = base.clone(); y.insert(i, c); out.push(y);
                }
                let mut z = base.clone(); z.remove(i); out.push(z);
            }
        }
    }
    for ports in ["+80 443", "80 +443", "080 443", "80 0443", "65536 1", "1 65536", " 443", "80 ", "80  443", "-1 2", "00 0", "0 0", "0 00", "1e3 2", "99999 1", "80 443 9"] {
        out.push(format!("PROXY TCP4 1.2.3.4 5.6.7.8 {}\r\n", ports).into_bytes());
        out.push(format!("PROXY TCP6 ::1 ::2 {}\r\n", ports).into_bytes());
    }
    for l in ["PROXY TCP4 1.2.3.4\r\n", "PROXY TCP4\r\n", "PROXY\r\n", "PROXY \r\n", "PROX\r\n", "P\rP", "PROXY UNKNOWN\rX", "PROXY UNKNOWN \n", "PROXY TCP4 1.2.3.4 5.6.7.8 1 2 \n",
              "PROXY TCP4 1.2.3.4 5.6.7.8 1 2\n", "PROXY TCP4 1.2.3.4 5.6.7.8 1 2\r", "PROXY TCP4 1.2.3.4 5.6.7.8 1 2\r\r\n", "PROXY TCP4 01.2.3.4 5.6.7.8 1 2\r\n",
              "PROXY TCP4 ::1 ::2 1 2\r\n", "PROXY TCP6 1.2.3.4 5.6.7.8 1 2\r\n", "proxy UNKNOWN\r\n", "PROXY unknown\r\n", "PROXY TCP5 1.2.3.4 5.6.7.8 1 2\r\n",
              "PROXY\rTCP4 1.2.3.4 5.6.7.8 1 2\r\n", "PROXY UNKNOWNX\r\n", "PROXY UNKNOWN\r\u{e9}", "PROXY\r\u{e9}", "", "\r", "\r\n", "\n"] {
        out.push(l.as_bytes().to_vec());
    }
    for n in 100..112usize { out.push(vec![b'x'; n]); let mut p = b"PROXY UNKNOWN ".to_vec(); p.resize(n, b'y'); out.push(p); }
    // a CR around the last position a line of 107 bytes allows (index 105), with and without the bytes after it
    for cr in 103..109usize { for tail in [&b""[..], b"\n", b"\nX", b"X"] { let mut p = b"PROXY UNKNOWN ".to_vec(); p.resize(cr, b'a'); p.push(13); p.extend_from_slice(tail); out.push(p); } }
    out
}

fn v1_kind_name(e: &v1::ParseError) -> &'static str {
    use v1::ParseError::*;
    match e {
        InvalidPrefix => "InvalidPrefix", Partial => "Partial", MissingPrefix => "MissingPrefix", MissingNewLine => "MissingNewLine",
        MissingProtocol => "MissingProtocol", MissingSourceAddress => "MissingSourceAddress", MissingDestinationAddress => "MissingDestinationAddress",
        MissingSourcePort => "MissingSourcePort", MissingDestinationPort => "MissingDestinationPort", HeaderTooLong => "HeaderTooLong",
        InvalidProtocol => "InvalidProtocol", InvalidSuffix => "InvalidSuffix", InvalidSourceAddress(_) => "InvalidSourceAddress",
        InvalidDestinationAddress(_) => "InvalidDestinationAddress", InvalidSourcePort(_) => "InvalidSourcePort", InvalidDestinationPort(_) => "InvalidDestinationPort",
    }
}

/// the decoded addresses in the oracle's notation, from the FIELDS (not from `derive(Debug)`, whose text is no part of any property)
fn show_v1_addr(a: &v1::Addresses) -> String {
    match a {
        v1::Addresses::Unknown => "Unknown".into(),
        v1::Addresses::Tcp4(x) => format!("Tcp4(IPv4 {{ source_address: {}, source_port: {}, destination_address: {}, destination_port: {} }})", x.source_address, x.source_port, x.destination_address, x.destination_port),
        v1::Addresses::Tcp6(x) => format!("Tcp6(IPv6 {{ source_address: {}, source_port: {}, destination_address: {}, destination_port: {} }})", x.source_address, x.source_port, x.destination_address, x.destination_port),
    }
}
fn show_v2_addr(a: &v2::Addresses) -> String {
    match a {
        v2::Addresses::Unspecified => "Unspecified".into(),
        v2::Addresses::IPv4(x) => format!("IPv4(IPv4 {{ source_address: {}, source_port: {}, destination_address: {}, destination_port: {} }})", x.source_address, x.source_port, x.destination_address, x.destination_port),
        v2::Addresses::IPv6(x) => format!("IPv6(IPv6 {{ source_address: {}, source_port: {}, destination_address: {}, destination_port: {} }})", x.source_address, x.source_port, x.destination_address, x.destination_port),
        v2::Addresses::Unix(x) => format!("Unix(Unix {{ source: {:?}, destination: {:?} }})", &x.source[..], &x.destination[..]),
    }
}

/// compares the byte entry point (and, for valid UTF-8, the text entry points) with the oracle
/// lvl 0: acceptance and decoded result only; 1: + the incomplete / complete classification; 2: + the exact error kind
fn check_v1(input: &[u8]) -> Option<Mismatch> { check_v1_lvl(input, 2) }
fn check_v1_lvl(input: &[u8], lvl: u8) -> Option<Mismatch> { check_v1_parts(input, lvl, true) }
fn v1_same(a: &V1Out, b: &V1Out, lvl: u8) -> bool {
    match (a, b) {
        (V1Out::Accept(x, y), V1Out::Accept(p, q)) => x == p && y == q,
        (V1Out::Accept(..), _) | (_, V1Out::Accept(..)) => false,
        _ if lvl == 0 => true,
        (V1Out::InvalidUtf8, V1Out::InvalidUtf8) => true,
        (V1Out::Reject(x), V1Out::Reject(y)) => if lvl >= 2 { x == y } else { v1_incomplete_kind(x) == v1_incomplete_kind(y) },
        (V1Out::InvalidUtf8, V1Out::Reject(k)) | (V1Out::Reject(k), V1Out::InvalidUtf8) => lvl < 2 && !v1_incomplete_kind(k),
    }
}
/// `views`: also the accessor re-assembly (C15) and the agreement of the FromStr entry points (C16)
fn check_v1_parts(input: &[u8], lvl: u8, views: bool) -> Option<Mismatch> {
    let want = oracle_v1_bytes(input);
    let got = std::panic::catch_unwind(|| v1::Header::try_from(input));
    let got = match got { Ok(g) => g, Err(_) => return Some(Mismatch { case: hex(input), expected: format!("{:?}", want), actual: "PANIC in v1::Header::try_from(&[u8])".into() }) };
    let actual = match &got {
        Ok(h) => V1Out::Accept(show_v1_addr(&h.addresses), h.header.as_bytes().to_vec()),
        Err(v1::BinaryParseError::InvalidUtf8(_)) => V1Out::InvalidUtf8,
        Err(v1::BinaryParseError::Parse(e)) => V1Out::Reject(v1_kind_name(e).to_string()),
    };
    if !v1_same(&actual, &want, lvl) {
        return Some(Mismatch { case: hex(input), expected: format!("bytes entry: {:?}", want), actual: format!("{:?}", actual) });
    }
    let inc_want = matches!(&want, V1Out::Reject(k) if v1_incomplete_kind(k));
    if lvl >= 1 && (got.is_incomplete() != inc_want || got.is_complete() == inc_want) {
        return Some(Mismatch { case: hex(input), expected: format!("is_incomplete == {}", inc_want), actual: format!("is_incomplete == {}", got.is_incomplete()) });
    }
    if let (Ok(h), true) = (&got, views) {
        // accessors must not panic and must reassemble the text (C03, C15)
        let r = std::panic::catch_unwind(|| (h.protocol().to_string(), h.addresses_str().to_string(), h.to_string(), h.to_owned()));
        match r {
            Err(_) => return Some(Mismatch { case: hex(input), expected: "accessors return".into(), actual: "PANIC in an accessor of the parsed v1 header".into() }),
            Ok((p, a, s, o)) => {
                let re = if a.is_empty() { format!("PROXY {}\r\n", p) } else { format!("PROXY {} {}\r\n", p, a) };
                let text = String::from_utf8_lossy(h.header.as_bytes()).to_string();
                if re != text && format!("PROXY {} \r\n", p) != text || s != text || o != *h {
                    return Some(Mismatch { case: hex(input), expected: format!("views reassemble {:?}", text), actual: format!("protocol={:?} addresses_str={:?} to_string={:?}", p, a, s) });
                }
            }
        }
    }
    if let Ok(text) = std::str::from_utf8(input) {
        let want_s = oracle_v1_str(text);
        let got_s = std::panic::catch_unwind(|| v1::Header::try_from(text));
        let got_s = match got_s { Ok(g) => g, Err(_) => return Some(Mismatch { case: hex(input), expected: format!("{:?}", want_s), actual: "PANIC in v1::Header::try_from(&str)".into() }) };
        let actual_s = match &got_s {
            Ok(h) => V1Out::Accept(show_v1_addr(&h.addresses), h.header.as_bytes().to_vec()),
            Err(e) => V1Out::Reject(v1_kind_name(e).to_string()),
        };
        if !v1_same(&actual_s, &want_s, lvl) {
            return Some(Mismatch { case: hex(input), expected: format!("text entry: {:?}", want_s), actual: format!("{:?}", actual_s) });
        }
        let inc_s = matches!(&want_s, V1Out::Reject(k) if v1_incomplete_kind(k));
        if lvl >= 1 && got_s.is_incomplete() != inc_s {
            return Some(Mismatch { case: hex(input), expected: format!("text entry: is_incomplete == {}", inc_s), actual: format!("is_incomplete == {}", got_s.is_incomplete()) });
        }
        let fa = text.parse::<v1::Addresses>();
        let fh = text.parse::<v1::Header<'static>>();
        let same = !views || match (&got_s, &fa, &fh) {
            (Ok(h), Ok(a), Ok(h2)) => h.addresses == *a && *h == *h2,
            (Err(e), Err(e1), Err(e2)) => lvl < 2 || (e == e1 && e == e2),
            _ => false,
        };
        if !same { return Some(Mismatch { case: hex(input), expected: "FromStr impls agree with try_from(&str)".into(), actual: format!("{:?} / {:?} / {:?}", got_s, fa, fh) }); }
    }
    None
}

// ---------------------------------------------------------------------------------------------
// v2
// ---------------------------------------------------------------------------------------------
const SIG: [u8; 12] = [13, 10, 13, 10, 0, 13, 10, 81, 85, 73, 84, 10];

fn v2_header(vc: u8, afp: u8, len: u16, payload: &[u8]) -> Vec<u8> {
    let mut v = SIG.to_vec(); v.push(vc); v.push(afp); v.extend_from_slice(&len.to_be_bytes()); v.extend_from_slice(payload); v
}

fn v2_cases() -> Vec<Vec<u8>> {
    let mut out = Vec::new();
    let mut payload = Vec::new();
    for i in 0..240u32 { payload.push((i * 7 + 3) as u8); }
    let fams: [(u8, usize); 4] = [(0x00, 0), (0x10, 12), (0x20, 36), (0x30, 216)];
    for &(f, sz) in &fams {
        for extra in [0usize, 1, 3, 7, 20] {
            let n = sz + extra;
            let h = v2_header(0x21, f | 0x01, n as u16, &payload[..n]);
            out.push(h.clone());
            for k in 0..h.len().min(60) { out.push(h[..k].to_vec()); }
            out.push(h[..h.len() - 1].to_vec());
            let mut t = h.clone(); t.extend_from_slice(b"trailing"); out.push(t);
            for b in 0..=255u8 { let mut x = h.clone(); x[12] = b; out.push(x); let mut y = h.clone(); y[13] = b; out.push(y); }
            for i in 0..12 { for d in [1u8, 0x80, 0xff] { let mut x = h.clone(); x[i] ^= d; out.push(x); } }
            for l in [0u16, 1, 11, 12, 13, 35, 36, 37, 215, 216, 217, 0x7fff, 0x8000, 0xffff] { let mut x = h.clone(); x[14] = (l >> 8) as u8; x[15] = l as u8; out.push(x); }
        }
    }
    // a declared length too small for the family, on a TRUNCATED input (C17: a Partial must be completable)
    for &(f, sz) in &fams {
        for l in [0usize, 1, 4, 11, 12, 35, 215] {
            if l >= sz { continue; }
            for have in [0usize, l / 2, l.saturating_sub(1)] { if have < l { out.push(v2_header(0x21, f | 0x01, l as u16, &payload[..have])); } }
        }
    }
    // well-formed, non-empty TLV sections after the address block (also followed by stray bytes)
    for &(f, sz) in &fams {
        if sz == 0 { continue; }
        for stray in [0usize, 1, 2] {
            let mut p = payload[..sz].to_vec();
            p.extend_from_slice(&[4, 0, 0, 1, 0, 2, 0x68, 0x32, 0x20, 0, 3, 1, 2, 3, 0xEE, 0, 1, 9]);
            p.extend_from_slice(&[5u8, 0][..stray]);
            let h = v2_header(0x21, f | 0x01, p.len() as u16, &p);
            out.push(h.clone()); out.push(h[..h.len() - 1].to_vec()); let mut t = h.clone(); t.extend_from_slice(b"xyz"); out.push(t);
        }
    }
    // long headers
    for l in [0x8000usize, 0xffff] { let big = vec![0xabu8; l]; out.push(v2_header(0x21, 0x11, l as u16, &big)); out.push(v2_header(0x20, 0x00, l as u16, &big[..l - 1])); }
    out.push(Vec::new());
    out
}

fn check_v2(input: &[u8]) -> Option<Mismatch> { check_v2_lvl(input, 2) }
fn check_v2_lvl(input: &[u8], lvl: u8) -> Option<Mismatch> { check_v2_parts(input, lvl, true) }
/// lvl 0: acceptance, decoded result and views; 1: + incomplete classification and the counts it carries (C17); 2: + the exact terminal error
fn check_v2_parts(input: &[u8], lvl: u8, views: bool) -> Option<Mismatch> {
    let want = oracle_v2(input);
    let got = match std::panic::catch_unwind(|| v2::Header::try_from(input)) { Ok(g) => g, Err(_) => return Some(Mismatch { case: hex(input), expected: format!("{:?}", want), actual: "PANIC in v2::Header::try_from".into() }) };
    let actual = match &got {
        Ok(h) => V2Out::Accept { command: h.command as u8, protocol: h.protocol as u8, family: h.address_family() as u8,
                                 total: if h.header.as_ref() == &input[..h.header.len().min(input.len())] { h.header.len() } else { usize::MAX }, addresses: show_v2_addr(&h.addresses) },
        Err(e) => V2Out::Reject(format!("{:?}", e)),
    };
    let is_inc = |o: &V2Out| matches!(o, V2Out::Reject(t) if t.starts_with("Incomplete(") || t.starts_with("Partial("));
    let agree = match (&actual, &want) {
        (V2Out::Accept { .. }, _) | (_, V2Out::Accept { .. }) => actual == want,
        _ if lvl == 0 => true,
        _ if lvl == 1 => is_inc(&actual) == is_inc(&want) && (!is_inc(&want) || actual == want),
        _ => actual == want,
    };
    if !agree { return Some(Mismatch { case: hex(input), expected: format!("{:?}", want), actual: format!("{:?}", actual) }); }
    let inc = is_inc(&want);
    if lvl >= 1 {
        if got.is_incomplete() != inc { return Some(Mismatch { case: hex(input), expected: format!("is_incomplete == {}", inc), actual: format!("{}", got.is_incomplete()) }); }
        if got.is_complete() == inc { return Some(Mismatch { case: hex(input), expected: format!("is_complete == {}", !inc), actual: format!("{}", got.is_complete()) }); }
        if let Err(e) = &got {
            if e.is_incomplete() != inc || e.is_complete() == inc {
                return Some(Mismatch { case: hex(input), expected: format!("error.is_incomplete == {} and is_complete == {}", inc, !inc), actual: format!("is_incomplete == {}, is_complete == {}", e.is_incomplete(), e.is_complete()) });
            }
        }
    }
    if let (Ok(h), true) = (&got, views) {
        let r = std::panic::catch_unwind(|| {
            let fam = fam_size(input[13] & 0xF0);
            let end = if input[13] & 0xF0 == 0 { h.header.len() } else { 16 + fam };
            let ok = h.header.as_ref() == &input[..h.header.len()] && h.as_bytes() == h.header.as_ref() && h.len() == h.header.len()
                && h.length() == h.header.len() - 16 && !h.is_empty()
                && h.address_bytes() == &input[16..end] && h.tlv_bytes() == &input[end..h.header.len()] && h.tlvs().as_bytes() == h.tlv_bytes()
                && h.to_owned() == *h && h.addresses.len() == fam && (h.addresses.is_empty() == (fam == 0)) && u16::from(h.address_family()) as usize == fam;
            let items: Vec<_> = h.tlvs().take(h.tlv_bytes().len() / 3 + 7).collect();
            let want_items = oracle_tlv_walk(h.tlv_bytes());
            (ok, tlv_same(&items, &want_items, h.tlv_bytes().len()))
        });
        match r {
            Err(_) => return Some(Mismatch { case: hex(input), expected: "views return".into(), actual: "PANIC in a view of the parsed v2 header".into() }),
            Ok((ok, tl)) => if !ok || !tl { return Some(Mismatch { case: hex(input), expected: "views partition the header / TLV walk".into(), actual: format!("views_ok={} tlv_ok={}", ok, tl) }); }
        }
    }
    None
}

fn tlv_same(items: &[Result<v2::TypeLengthValue<'_>, v2::ParseError>], want: &[TlvItem], _n: usize) -> bool {
    if items.len() != want.len() { return false; }
    for (g, w) in items.iter().zip(want) {
        let ok = match (g, w) {
            (Ok(t), TlvItem::Tlv(k, v)) => t.kind == *k && t.value.as_ref() == &v[..] && t.len() == v.len() && t.is_empty() == v.is_empty() && t.to_owned() == *t,
            (Err(_), TlvItem::Short) => true,      // "exactly one error item": the statement does not name its kind
            (Err(v2::ParseError::InvalidTLV(k, l)), TlvItem::Overrun(k2, l2)) => k == k2 && *l as usize == *l2,
            _ => false,
        };
        if !ok { return false; }
    }
    true
}

fn tlv_cases() -> Vec<Vec<u8>> {
    let mut out = Vec::new();
    // all strings over {0,1,2,255} up to length 6
    let alpha = [0u8, 1, 2, 255];
    for len in 0..=6usize {
        let mut idx = vec![0usize; len];
        loop {
            out.push(idx.iter().map(|&i| alpha[i]).collect());
            let mut p = 0;
            loop { if p == len { break; } idx[p] += 1; if idx[p] < alpha.len() { break; } idx[p] = 0; p += 1; }
            if p == len { break; }
        }
    }
    out.push(vec![0, 0, 0, 1, 0, 2, 0, 0, 7]);
    out.push(vec![4, 0, 0, 4, 0, 0, 0, 0]);
    let mut big = vec![1u8, 0xff, 0xff]; big.extend(vec![9u8; 65535]); out.push(big.clone());
    let mut two = big.clone(); two.extend_from_slice(&[2, 0, 2, 5, 6]); out.push(two);
    out.push(big[..65536].to_vec());
    let mut many = Vec::new(); for i in 0..8200u32 { many.extend_from_slice(&[(i % 250) as u8, 0, 5, 1, 2, 3, 4, 5]); } out.push(many);
    out
}

fn check_tlv(section: &[u8]) -> Option<Mismatch> {
    let want = oracle_tlv_walk(section);
    let limit = section.len() / 3 + 2;
    let r = std::panic::catch_unwind(|| {
        let mut it = v2::TypeLengthValues::from(section);
        let items: Vec<_> = it.by_ref().take(limit + 5).collect();
        // once it has ended it stays ended
        let after = if items.len() <= limit { (0..3).all(|_| it.next().is_none()) } else { true };
        let fresh = v2::TypeLengthValues::from(section);
        (items.len(), tlv_same(&items, &want, section.len()), after, fresh.as_bytes() == section, fresh.is_empty() == section.is_empty(), fresh.len() as usize == section.len() % 65536)
    });
    let case = format!("len={} {}", section.len(), hex(&section[..section.len().min(64)]));
    match r {
        Err(_) => Some(Mismatch { case: hex(&section[..section.len().min(64)]), expected: "iteration returns".into(), actual: "PANIC in TLV iteration".into() }),
        Ok((n, same, after, b, e, l)) => if n > section.len() / 3 + 1 {
            Some(Mismatch { case, expected: format!("at most {} items (n/3 + 1)", section.len() / 3 + 1), actual: format!("{} items or more", n) })
        } else if !same {
            Some(Mismatch { case, expected: format!("{} items, standard walk", want.len()), actual: format!("{} items, differing", n) })
        } else if !after {
            Some(Mismatch { case, expected: "no item after the end / after an error item".into(), actual: "next() yields again".into() })
        } else if !b || !e || (!l && section.len() <= 65535) {
            // the raw-bytes view and the emptiness / length of the section: not C11's business (the 16-bit `len()` of a longer slice is pinned by nothing)
            Some(Mismatch { case, expected: "as_bytes / is_empty / len describe the section".into(), actual: format!("as_bytes={} is_empty={} len={}", b, e, l) })
        } else { None }
    }
}
/// the walk only (what C11 states): the accessor part of check_tlv is dropped
fn check_tlv_walk(section: &[u8]) -> Option<Mismatch> { check_tlv(section).filter(|m| !m.expected.starts_with("as_bytes")) }

// ---------------------------------------------------------------------------------------------
// builder / encoders
// ---------------------------------------------------------------------------------------------
#[derive(Clone, Debug)]
enum Op { Reserve(usize), SetLen(Option<u16>), Bytes(usize), U8(u8), U16(u16), I32(i32), U64(u64), Tlv(u8, usize), Pair(u8, usize), TypeSsl, Batch(Vec<usize>), Section(usize), Addr4 }

fn builder_histories() -> Vec<(bool, Vec<Op>)> {
    use Op::*;
    let small: Vec<Op> = vec![Reserve(10), SetLen(Some(5)), SetLen(Some(0)), SetLen(None), Bytes(0), Bytes(3), U8(7), U16(0x1234), I32(-2), U64(0x0102030405060708), Tlv(4, 2), Pair(5, 1), TypeSsl, Batch(vec![1, 2]), Section(6), Addr4];
    let mut out = Vec::new();
    for with_addr in [false, true] {
        out.push((with_addr, vec![]));
        for a in &small { out.push((with_addr, vec![a.clone()])); for b in &small { out.push((with_addr, vec![a.clone(), b.clone()]));
            for c in [SetLen(Some(9)), Bytes(2), Reserve(1)] { out.push((with_addr, vec![a.clone(), b.clone(), c])); } } }
        // limits
        for n in [65535usize, 65536, 65533, 65532] {
            out.push((with_addr, vec![Tlv(1, n)])); out.push((with_addr, vec![Pair(1, n)])); out.push((with_addr, vec![Bytes(n)]));
            out.push((with_addr, vec![SetLen(Some(7)), Bytes(n.min(65535)), U8(1), TypeSsl]));
            out.push((with_addr, vec![Bytes(n.min(65535)), Bytes(20), SetLen(Some(1))]));
        }
        // a payload of EXACTLY 65535 bytes that ends in an empty value / an empty slice (a write of no bytes into a full buffer)
        let room = 65535 - if with_addr { 12 } else { 0 };
        out.push((with_addr, vec![Tlv(2, room - 6), Tlv(4, 0)]));
        out.push((with_addr, vec![Tlv(2, room - 6), Pair(4, 0)]));
        out.push((with_addr, vec![Bytes(room), Bytes(0)]));
        out.push((with_addr, vec![Tlv(2, room - 3), Batch(vec![0])]));
        out.push((with_addr, vec![Tlv(2, room - 3), Section(0)]));
        out.push((with_addr, vec![Tlv(2, 65505), Tlv(4, 0)]));
        out.push((with_addr, vec![Tlv(2, 65505), Tlv(4, 12)]));
        out.push((with_addr, vec![Tlv(2, 65500), Batch(vec![1])]));
        out.push((with_addr, vec![Section(65536)]));
        out.push((with_addr, vec![SetLen(Some(7)), Section(65536), U8(3)]));
        out.push((with_addr, vec![SetLen(Some(7)), Bytes(65535), U8(1), TypeSsl, U16(0x0102), Tlv(4, 1)]));
    }
    out
}

/// every property looks at ITS aspect of a builder history only:
///   bytes (C07 C10 C13): a build that succeeds returns the model's bytes;  len (C09): the length field of a successful build,
///   and the operations that must be refused;  succeeds (C07 C13): what the model accepts must not be refused.
/// Where the real code and the model part ways on an aspect the property does not pin (e.g. where the writer's size
/// limit lies), the history simply ends.
fn check_builder(with_addr: bool, ops: &[Op], prop: &str) -> Option<Mismatch> {
    let bytes_aspect = ["C07", "C10", "C13", "any"].contains(&prop);
    let len_aspect = ["C09", "any"].contains(&prop);
    let refusal_aspect = ["C09", "C10", "any"].contains(&prop);
    let succeeds_aspect = ["C07", "C13", "any"].contains(&prop);
    // real_ok: what the real code did; enc_ok: the value is encodable (<= 65535 bytes) - otherwise it MUST be refused
    // in_domain: after this write at most 65535 bytes follow the fixed part (the headers C07 / C13 speak about)
    let dv = |real_ok: bool, enc_ok: bool, in_domain: bool, what: String| -> Result<Option<(String, String)>, String> {
        if real_ok && !enc_ok && (len_aspect || (refusal_aspect && what.contains("tlv") || what.contains("(kind,"))) { return Err(what + " (a value too large for its 16-bit length was accepted)"); }
        if !real_ok && succeeds_aspect && in_domain { return Err(what + " was refused although the header still fits in 65535 bytes"); }
        Ok(None)
    };
    let addr = v2::Addresses::IPv4(v2::IPv4::new([1, 2, 3, 4], [5, 6, 7, 8], 80, 443));
    let case = format!("with_addresses={} ops={:?}", with_addr, ops);
    let r = std::panic::catch_unwind(|| {
        let mut b = if with_addr { v2::Builder::with_addresses(v2::Version::Two | v2::Command::Proxy, v2::Protocol::Stream, addr) } else { v2::Builder::new(0x21, 0x31) };
        let mut model = BuilderModel::new(0x21, if with_addr { 0x11 } else { 0x31 }, if with_addr { vec![1, 2, 3, 4, 5, 6, 7, 8, 0, 80, 1, 187] } else { vec![] });
        for op in ops {
            let data = |n: usize| -> Vec<u8> { (0..n).map(|i| (i * 31 + 7) as u8).collect() };
            let res: std::io::Result<v2::Builder> = match op {
                Op::Reserve(n) => { Ok(b.reserve_capacity(*n)) }
                Op::SetLen(l) => { model.length = *l; Ok(b.set_length(*l)) }
                Op::Bytes(n) => { let d = data(*n); let ok = model.write(if *n <= 65535 { Some(vec![d.clone()]) } else { None }); let r = b.write_payload(d.as_slice()); if r.is_ok() != ok { return dv(r.is_ok(), *n <= 65535, model.buf.as_ref().map_or(true, |b| b.len() <= 16 + 65535), format!("write_payload([u8;{}]) ok={} expected ok={}", n, r.is_ok(), ok)); } r }
                Op::U8(x) => { let ok = model.write(Some(vec![vec![*x]])); let r = b.write_payload(*x); if r.is_ok() != ok { return dv(r.is_ok(), true, model.buf.as_ref().map_or(true, |b| b.len() <= 16 + 65535), "write_payload(u8)".into()); } r }
                Op::U16(x) => { let ok = model.write(Some(vec![x.to_be_bytes().to_vec()])); let r = b.write_payload(*x); if r.is_ok() != ok { return dv(r.is_ok(), true, model.buf.as_ref().map_or(true, |b| b.len() <= 16 + 65535), "write_payload(u16)".into()); } r }
                Op::I32(x) => { let ok = model.write(Some(vec![x.to_be_bytes().to_vec()])); let r = b.write_payload(*x); if r.is_ok() != ok { return dv(r.is_ok(), true, model.buf.as_ref().map_or(true, |b| b.len() <= 16 + 65535), "write_payload(i32)".into()); } r }
                Op::U64(x) => { let ok = model.write(Some(vec![x.to_be_bytes().to_vec()])); let r = b.write_payload(*x); if r.is_ok() != ok { return dv(r.is_ok(), true, model.buf.as_ref().map_or(true, |b| b.len() <= 16 + 65535), "write_payload(u64)".into()); } r }
                Op::Tlv(k, n) => { let d = data(*n); let ok = model.write(tlv_chunks(*k, &d)); let r = b.write_tlv(*k, d.as_slice()); if r.is_ok() != ok { return dv(r.is_ok(), *n <= 65535, model.buf.as_ref().map_or(true, |b| b.len() <= 16 + 65535), format!("write_tlv({}) ok={} expected {}", n, r.is_ok(), ok)); } r }
                Op::Pair(k, n) => { let d = data(*n); let ok = model.write(tlv_chunks(*k, &d)); let r = b.write_payload((*k, d.as_slice())); if r.is_ok() != ok { return dv(r.is_ok(), *n <= 65535, model.buf.as_ref().map_or(true, |b| b.len() <= 16 + 65535), format!("write_payload((kind, [u8;{}])) ok={} expected {}", n, r.is_ok(), ok)); } r }
                Op::TypeSsl => { let ok = model.write(Some(vec![vec![0x20]])); let r = b.write_payload(v2::Type::SSL); if r.is_ok() != ok { return dv(r.is_ok(), true, model.buf.as_ref().map_or(true, |b| b.len() <= 16 + 65535), format!("write_payload(Type::SSL) ok={} expected {}", r.is_ok(), ok)); } r }
                Op::Batch(ns) => { let ds: Vec<Vec<u8>> = ns.iter().map(|n| data(*n)).collect(); let mut ok = model.start(); for d in &ds { ok = ok && model.write_started(Some(vec![d.clone()])); if !ok { break; } }
                    let r = b.write_payloads(ds.iter().map(|d| d.as_slice())); if r.is_ok() != ok { return dv(r.is_ok(), true, model.buf.as_ref().map_or(true, |b| b.len() <= 16 + 65535), "write_payloads".into()); } r }
                Op::Section(n) => { let d = data(*n); let ok = model.write(Some(vec![d.clone()])); let r = b.write_payload(v2::TypeLengthValues::from(d.as_slice())); if r.is_ok() != ok { return dv(r.is_ok(), true, model.buf.as_ref().map_or(true, |b| b.len() <= 16 + 65535), "write_payload(TLV section)".into()); } r }
                Op::Addr4 => { let ok = model.write(Some(vec![vec![1, 2, 3, 4], vec![5, 6, 7, 8], vec![0, 80], vec![1, 187]])); let r = b.write_payload(addr); if r.is_ok() != ok { return dv(r.is_ok(), true, model.buf.as_ref().map_or(true, |b| b.len() <= 16 + 65535), "write_payload(addresses)".into()); } r }
            };
            match res { Ok(nb) => b = nb, Err(_) => return Ok(None) }   // a failed write ends the history (agreed with the model above)
        }
        let explicit = model.length;
        let want = model.build();
        let got = b.build();
        match (want, got) {
            (None, Err(_)) => Ok(None),
            (Some(w), Ok(g)) => {
                if len_aspect {
                    // C09: the explicit length in force, otherwise the ACTUAL number of bytes after the fixed part
                    let field = if g.len() >= 16 { Some((g[14] as usize) * 256 + g[15] as usize) } else { None };
                    let wantf = explicit.map(|l| l as usize).unwrap_or(g.len().wrapping_sub(16));
                    if field != Some(wantf) { return Ok(Some((format!("length field {}", wantf), format!("length field {:?} (built {} bytes)", field, g.len())))); }
                }
                if bytes_aspect && w != g {
                    let a = format!("len={} head={}", w.len(), hex(&w[..w.len().min(40)]));
                    let b2 = format!("len={} head={}", g.len(), hex(&g[..g.len().min(40)]));
                    return Ok(Some((a, b2)));
                }
                Ok(None)
            },
            (None, Ok(g)) => if len_aspect { Ok(Some(("build fails: more than 65535 bytes follow the fixed part and no explicit length is in force".into(), format!("build ok, {} bytes", g.len())))) } else { Ok(None) },
            (Some(_), Err(e)) => if succeeds_aspect { Ok(Some(("build ok".into(), format!("build failed: {:?}", e.kind())))) } else { Ok(None) },
        }
    });
    match r {
        Err(_) => Some(Mismatch { case, expected: "no panic".into(), actual: "PANIC in the builder".into() }),
        Ok(Err(m)) => Some(Mismatch { case, expected: "an encodable payload below the size limit is accepted, a value too large for its length is refused".into(), actual: m }),
        Ok(Ok(Some((w, g)))) => Some(Mismatch { case, expected: w, actual: g }),
        Ok(Ok(None)) => None,
    }
}

/// `limits`: also which value sizes an encoder accepts on its own (C20; C07 only speaks about what fits in a header)
fn check_encoders(limits: bool) -> Option<Mismatch> {
    use v2::WriteToHeader;
    if limits {
    macro_rules! int_case { ($v:expr) => {{ let v = $v; let want = v.to_be_bytes().to_vec(); let got = v.to_bytes().unwrap();
        let mut w = v2::Writer::from(vec![9u8, 8]); let n = v.write_to(&mut w).unwrap(); let out = w.finish();
        if got != want || n != want.len() || out[..2] != [9, 8] || out[2..] != want[..] { return Some(Mismatch { case: format!("{} = {:?}", stringify!($v), v), expected: hex(&want), actual: format!("to_bytes={} n={} out={}", hex(&got), n, hex(&out)) }); } }} }
    int_case!(0x12u8); int_case!(0x1234u16); int_case!(0x12345678u32); int_case!(0x0102030405060708u64); int_case!(0x0102030405060708090a0b0c0d0e0f10u128); int_case!(0x0102usize);
    int_case!(-2i8); int_case!(-2i16); int_case!(i32::MIN); int_case!(-2i64); int_case!(-2i128); int_case!(-2isize); int_case!(u64::MAX); int_case!(i128::MAX);
    }
    let types = [(v2::Type::ALPN, 1u8), (v2::Type::Authority, 2), (v2::Type::CRC32C, 3), (v2::Type::NoOp, 4), (v2::Type::UniqueId, 5), (v2::Type::SSL, 0x20), (v2::Type::SSLVersion, 0x21),
        (v2::Type::SSLCommonName, 0x22), (v2::Type::SSLCipher, 0x23), (v2::Type::SSLSignatureAlgorithm, 0x24), (v2::Type::SSLKeyAlgorithm, 0x25), (v2::Type::NetworkNamespace, 0x30)];
    for (t, c) in types {
        if u8::from(t) != c || t.to_bytes().unwrap() != vec![c] { return Some(Mismatch { case: format!("{:?}", t), expected: format!("{:#x}", c), actual: format!("{:#x}", u8::from(t)) }); }
        let v = [1u8, 2, 3];
        let a = v2::TypeLengthValue::new(t, &v[..]).to_bytes().unwrap(); let b = (t, &v[..]).to_bytes().unwrap();
        if a != b || a != vec![c, 0, 3, 1, 2, 3] { return Some(Mismatch { case: format!("TLV {:?}", t), expected: hex(&[c, 0, 3, 1, 2, 3]), actual: format!("{} / {}", hex(&a), hex(&b)) }); }
    }
    for n in [65533usize, 65535, 65536] {
        if !limits { break; }
        let v = vec![7u8; n];
        let a = v2::TypeLengthValue::new(4u8, &v[..]).to_bytes(); let b = (4u8, &v[..]).to_bytes(); let c = v[..].to_bytes();
        let want_ok = n <= 65535;
        if a.is_ok() != want_ok || b.is_ok() != want_ok || c.is_ok() != want_ok || (want_ok && (a.as_ref().unwrap() != b.as_ref().unwrap() || a.as_ref().unwrap().len() != n + 3)) {
            return Some(Mismatch { case: format!("value of {} bytes", n), expected: format!("encodable == {}", want_ok), actual: format!("tlv ok={} pair ok={} slice ok={}", a.is_ok(), b.is_ok(), c.is_ok()) });
        }
    }
    if !limits { return None; }
    let big = vec![3u8; 70000];
    let sec = v2::TypeLengthValues::from(&big[..]);
    let mut w = v2::Writer::default();
    match sec.write_to(&mut w) { Ok(n) if n == 70000 => {}, other => return Some(Mismatch { case: "TLV section of 70000 bytes".into(), expected: "Ok(70000)".into(), actual: format!("{:?}", other) }) }
    None
}

fn check_constructors() -> Option<Mismatch> {
    use std::net::{SocketAddr, SocketAddrV4, SocketAddrV6};
    let (a4, b4) = (Ipv4Addr::new(1, 2, 3, 4), Ipv4Addr::new(5, 6, 7, 8));
    let (a6, b6) = (Ipv6Addr::new(1, 2, 3, 4, 5, 6, 7, 8), Ipv6Addr::new(9, 10, 11, 12, 13, 14, 15, 16));
    let x = v2::IPv4::new(a4, b4, 11, 22);
    let ok = x.source_address == a4 && x.destination_address == b4 && x.source_port == 11 && x.destination_port == 22;
    let y = v2::IPv6::new(a6, b6, 11, 22);
    let ok = ok && y.source_address == a6 && y.destination_address == b6 && y.source_port == 11 && y.destination_port == 22;
    let ok = ok && v1::Addresses::new_tcp4(a4, b4, 11, 22) == v1::Addresses::Tcp4(x) && v1::Addresses::new_tcp6(a6, b6, 11, 22) == v1::Addresses::Tcp6(y);
    let s4 = SocketAddr::V4(SocketAddrV4::new(a4, 11)); let d4 = SocketAddr::V4(SocketAddrV4::new(b4, 22));
    let s6 = SocketAddr::V6(SocketAddrV6::new(a6, 11, 7, 3)); let d6 = SocketAddr::V6(SocketAddrV6::new(b6, 22, 1, 2));
    let ok = ok && v1::Addresses::from((s4, d4)) == v1::Addresses::Tcp4(x) && v2::Addresses::from((s4, d4)) == v2::Addresses::IPv4(x);
    let ok = ok && v1::Addresses::from((s6, d6)) == v1::Addresses::Tcp6(y) && v2::Addresses::from((s6, d6)) == v2::Addresses::IPv6(y);
    let ok = ok && v1::Addresses::from((s4, d6)) == v1::Addresses::Unknown && v2::Addresses::from((s6, d4)) == v2::Addresses::Unspecified
        && v1::Addresses::from((s6, d4)) == v1::Addresses::Unknown && v2::Addresses::from((s4, d6)) == v2::Addresses::Unspecified;
    let (p, q) = ([1u8; 108], [2u8; 108]);
    let u = v2::Unix::new(p, q);
    let ok = ok && u.source == p && u.destination == q && v2::Addresses::from(u) == v2::Addresses::Unix(u) && v1::Addresses::default() == v1::Addresses::Unknown;
    if ok { None } else { Some(Mismatch { case: "constructors / conversions with pairwise distinct endpoints".into(), expected: "every argument in its like-named role".into(), actual: "a constructor or conversion moved an endpoint".into() }) }
}

fn check_format() -> Option<Mismatch> {
    let vals = [v1::Addresses::Unknown,
        v1::Addresses::new_tcp4(Ipv4Addr::new(1, 2, 3, 4), Ipv4Addr::new(5, 6, 7, 8), 9, 10),
        v1::Addresses::new_tcp4(Ipv4Addr::new(0, 0, 0, 0), Ipv4Addr::new(255, 255, 255, 255), 0, 65535),
        v1::Addresses::new_tcp4(Ipv4Addr::new(10, 0, 0, 1), Ipv4Addr::new(10, 0, 0, 2), 0, 443),
        v1::Addresses::new_tcp6(Ipv6Addr::new(1, 2, 3, 4, 5, 6, 7, 8), Ipv6Addr::new(9, 10, 11, 12, 13, 14, 15, 16), 17, 18),
        v1::Addresses::new_tcp6(Ipv6Addr::new(0, 0, 0, 0, 0, 0, 0, 1), Ipv6Addr::new(0xffff, 0xffff, 0xffff, 0xffff, 0xffff, 0xffff, 0xffff, 0xffff), 65535, 0)];
    let mut vals: Vec<v1::Addresses> = vals.to_vec();
    // every port value in each role (std's decimal printer / the leading-zero and sign rules), both families
    for p in 0..=65535u16 {
        vals.push(v1::Addresses::new_tcp4(Ipv4Addr::new(127, 0, 0, 1), Ipv4Addr::new(192, 168, 1, 1), p, 443));
        vals.push(v1::Addresses::new_tcp4(Ipv4Addr::new(127, 0, 0, 1), Ipv4Addr::new(192, 168, 1, 1), 80, p));
        if p % 257 == 0 || p < 12 { vals.push(v1::Addresses::new_tcp6(Ipv6Addr::new(p, 0, 0, 0, 0, 0, 0, 1), Ipv6Addr::new(0, 0, p, p, 0, 0, 0, 2), p, 65535 - p)); }
    }
    for a in vals {
        let s = a.to_string();
        // C08: a well-formed v1 line (the grammar of C01) of at most 107 bytes that every text entry point parses back to the value
        let wf = matches!(oracle_v1_str(&s), V1Out::Accept(ref shown, ref line) if *shown == show_v1_addr(&a) && line == s.as_bytes());
        let back = s.parse::<v1::Addresses>();
        let via_header = v1::Header::try_from(s.as_str()).map(|h| h.addresses);
        let via_fromstr = s.parse::<v1::Header<'static>>().map(|h| h.addresses);
        let via_bytes = v1::Header::try_from(s.as_bytes()).map(|h| h.addresses);
        if !wf || s.len() > 107 || back != Ok(a) || via_header != Ok(a) || via_fromstr != Ok(a) || via_bytes.as_ref().ok() != Some(&a) {
            return Some(Mismatch { case: format!("{:?}", a), expected: "a well-formed line of at most 107 bytes that parses back to the value through every entry point".into(),
                                   actual: format!("{:?} (well-formed: {}) -> FromStr<Addresses> {:?}, try_from(&str) {:?}, FromStr<Header> {:?}, try_from(&[u8]) {:?}", s, wf, back, via_header, via_fromstr, via_bytes) });
        }
    }
    None
}

fn check_auto(input: &[u8]) -> Option<Mismatch> {
    match std::panic::catch_unwind(|| check_auto_inner(input)) {
        Ok(m) => m,
        Err(_) => Some(Mismatch { case: hex(input), expected: "the auto-detecting parser and the two parsers return".into(), actual: "PANIC in HeaderResult::parse / try_from".into() }),
    }
}
fn check_auto_inner(input: &[u8]) -> Option<Mismatch> {
    let r2 = v2::Header::try_from(input);
    let r1 = v1::Header::try_from(input);
    if r1.is_ok() && r2.is_ok() { return Some(Mismatch { case: hex(input), expected: "never accepted by both parsers".into(), actual: "v1 and v2 both accept".into() }); }
    let want: HeaderResult = if r2.is_err() && !r2.is_incomplete() { HeaderResult::V1(r1) } else { HeaderResult::V2(r2) };
    let got = HeaderResult::parse(input);
    let inc = match &want { HeaderResult::V1(r) => r.is_incomplete(), HeaderResult::V2(r) => r.is_incomplete() };
    let accepted = |r: &HeaderResult| matches!(r, HeaderResult::V1(Ok(_)) | HeaderResult::V2(Ok(_)));
    // an accepted header is returned unchanged with its version tag; a failure is pinned only as incomplete / terminal
    let same = if accepted(&want) || accepted(&got) { got == want } else { true };
    if !same || got.is_incomplete() != inc || got.is_complete() == inc {
        return Some(Mismatch { case: hex(input), expected: format!("{:?} incomplete={}", want, inc), actual: format!("{:?} incomplete={}", got, got.is_incomplete()) });
    }
    None
}

// ---------------------------------------------------------------------------------------------
// property-own domains (used when only a clause STRONGER than the property failed: the verdict function fixes
// the error kind of every input, the properties below do not)
// ---------------------------------------------------------------------------------------------

/// C12 (v1 part): a complete well-formed line with exactly ONE element replaced by a value invalid for it
/// -> (input, the kind that must be reported).  The replacements contain no SP / CR, so the fields stay where they are.
fn c12_v1_cases() -> Vec<(Vec<u8>, &'static str)> {
    let mut out: Vec<(Vec<u8>, &'static str)> = Vec::new();
    let lines: [(&str, [&str; 4]); 4] = [
        ("TCP4", ["1.2.3.4", "5.6.7.8", "80", "443"]),
        ("TCP4", ["255.255.255.255", "0.0.0.0", "65535", "0"]),
        ("TCP6", ["::1", "ffff::2", "1", "65535"]),
        ("TCP6", ["2001:db8::1", "2001:db8::2", "51234", "443"]),
    ];
    let mk = |kw: &str, proto: &str, f: [&str; 4], end: &str| format!("{} {} {} {} {} {}{}", kw, proto, f[0], f[1], f[2], f[3], end).into_bytes();
    for (proto, f) in lines {
        let v4 = proto == "TCP4";
        for kw in ["PROXYX", "proxy", "PROXZ", "XPROXY", "PR0XY"] { out.push((mk(kw, proto, f, "\r\n"), "InvalidPrefix")); }
        for pr in ["TCP5", "tcp4", "TCP44", "UNKNOWNX", "TCP", "UDP4", "unknown"] { out.push((mk("PROXY", pr, f, "\r\n"), "InvalidProtocol")); }
        let bad_addr: &[&str] = if v4 { &["::1", "256.1.1.1", "1.2.3", "1.2.3.4.5", "01.2.3.4", "a.b.c.d", "1.2.3.4x", "+1.2.3.4"] } else { &["1.2.3.4", ":::1", "12345::1", "g::1", "1:2:3:4:5:6:7:8:9", "::1x"] };
        for a in bad_addr {
            let mut g = f; g[0] = a; out.push((mk("PROXY", proto, g, "\r\n"), "InvalidSourceAddress"));
            let mut g = f; g[1] = a; out.push((mk("PROXY", proto, g, "\r\n"), "InvalidDestinationAddress"));
        }
        for pt in ["+80", "080", "00", "65536", "99999", "-1", "1e3", "0x50", "80a", "4294967296"] {
            let mut g = f; g[2] = pt; out.push((mk("PROXY", proto, g, "\r\n"), "InvalidSourcePort"));
            let mut g = f; g[3] = pt; out.push((mk("PROXY", proto, g, "\r\n"), "InvalidDestinationPort"));
        }
        for end in ["\rX", "\r\r", "\r\t", "\r\0", "\rGET"] { out.push((mk("PROXY", proto, f, end), "InvalidSuffix")); }
    }
    for end in ["\rX", "\r\r", "\r "] { out.push((format!("PROXY UNKNOWN{}", end).into_bytes(), "InvalidSuffix")); out.push((format!("PROXY UNKNOWN a b{}", end).into_bytes(), "InvalidSuffix")); }
    for n in [108usize, 109, 200] { let mut l = b"PROXY UNKNOWN ".to_vec(); while l.len() < n - 2 { l.push(b'x'); } l.extend_from_slice(b"\r\n"); out.push((l, "HeaderTooLong")); }
    // (an over-long run of other bytes has two corrupted elements - keyword and length - and is not in the domain)
    out.push((b"PROXY UNKNOWN \xff\xfe\r\n".to_vec(), "InvalidUtf8"));
    out.push((b"PROXY TCP4 1.2.3.4 5.6.7.8 80 443\r\xff".to_vec(), "InvalidUtf8|InvalidSuffix"));   // the byte after the CR / invalid UTF-8: either names it
    // the byte after the CR starts a multi-byte character that the end of the input cuts short: still terminal
    out.push((b"PROXY TCP4 1.2.3.4 5.6.7.8 80 443\r\xc3".to_vec(), "InvalidUtf8"));
    out.push((b"PROXY UNKNOWN\r\xe2\x82".to_vec(), "InvalidUtf8"));
    // ... and a complete character there: the text entry point cannot cut inside it (InvalidSuffix), the byte entry point sees invalid UTF-8
    out.push(("PROXY TCP4 1.2.3.4 5.6.7.8 80 443\r\u{e9}".as_bytes().to_vec(), "InvalidUtf8|InvalidSuffix"));
    out.push(("PROXY UNKNOWN\r\u{20ac}".as_bytes().to_vec(), "InvalidUtf8|InvalidSuffix"));
    out
}

fn check_c12_domain() -> (Option<Mismatch>, usize) {
    let mut n = 0;
    for (input, want) in c12_v1_cases() {
        n += 1;
        let got = match std::panic::catch_unwind(|| v1::Header::try_from(&input[..])) { Ok(g) => g, Err(_) => return (Some(Mismatch { case: hex(&input), expected: want.to_string(), actual: "PANIC".into() }), n) };
        let (kind, incomplete) = match &got {
            Ok(_) => ("Ok".to_string(), false),
            Err(v1::BinaryParseError::InvalidUtf8(_)) => ("InvalidUtf8".to_string(), got.is_incomplete()),
            Err(v1::BinaryParseError::Parse(e)) => (v1_kind_name(e).to_string(), got.is_incomplete()),
        };
        if !want.split('|').any(|w| w == kind) || incomplete || !got.is_complete() {
            return (Some(Mismatch { case: hex(&input), expected: format!("terminal error {} (one element corrupted)", want), actual: format!("{} incomplete={}", kind, incomplete) }), n);
        }
        // the same through the auto-detecting parser and, for UTF-8 input, the text entry point
        let rest = guarded(&input, "the auto-detecting / text entry point (C12)", || {
            let auto = HeaderResult::parse(&input[..]);
            if matches!(auto, HeaderResult::V1(Ok(_)) | HeaderResult::V2(Ok(_))) || auto.is_incomplete() { return Some(Mismatch { case: hex(&input), expected: "auto-detect: a terminal error".into(), actual: format!("{:?}", auto) }); }
            if let Ok(text) = std::str::from_utf8(&input) {
                let gs = v1::Header::try_from(text);
                let ks = match &gs { Ok(_) => "Ok".to_string(), Err(e) => v1_kind_name(e).to_string() };
                if !want.split('|').any(|w| w == ks) || gs.is_incomplete() { return Some(Mismatch { case: hex(&input), expected: format!("text entry: terminal {}", want), actual: format!("{} incomplete={}", ks, gs.is_incomplete()) }); }
            }
            None
        });
        if rest.is_some() { return (rest, n); }
    }
    // v2 part: complete headers with exactly one invalid element (signature, one control nibble, length below the family size)
    for c in v2_cases() {
        if c.len() < 16 { continue; }
        let len = (c[14] as usize) * 256 + c[15] as usize;
        if c.len() < 16 + len { continue; }
        let (v, cm, f, pr) = (c[12] & 0xF0, c[12] & 0x0F, c[13] & 0xF0, c[13] & 0x0F);
        let fam_ok = [0x00u8, 0x10, 0x20, 0x30].contains(&f);
        let bad = [c[..12] != SIG, v != 0x20, cm > 1, !fam_ok, pr > 2, fam_ok && len < fam_size(f)];
        if bad.iter().filter(|b| **b).count() != 1 { continue; }
        n += 1;
        if let Some(m) = check_v2_lvl(&c, 2) { return (Some(m), n); }
    }
    (None, n)
}

/// C16: the entry points agree WITH EACH OTHER (no specification involved)
fn check_c16_domain() -> (Option<Mismatch>, usize) {
    let mut n = 0;
    let mut cases = v1_cases();
    for (c, _) in c12_v1_cases() { cases.push(c); }
    for input in cases {
        if std::str::from_utf8(&input).is_err() { continue; }
        n += 1;
        // a panic in an entry point is not "the same outcome"
        if let Some(m) = guarded(&input, "a v1 entry point (C16)", || c16_one(&input)) { return (Some(m), n); }
    }
    (None, n)
}
fn c16_one(input: &[u8]) -> Option<Mismatch> {
    let text = std::str::from_utf8(input).ok()?;
    let rb = v1::Header::try_from(input);
    let rs = v1::Header::try_from(text);
    let rh = text.parse::<v1::Header<'static>>();
    let ra = text.parse::<v1::Addresses>();
    // the window ends inside a multi-byte character <=> the byte entry point sees invalid UTF-8: then all must fail
    let cut_inside = matches!(&rb, Err(v1::BinaryParseError::InvalidUtf8(_)));
    let same = if cut_inside { rs.is_err() && rh.is_err() && ra.is_err() } else {
        match (&rb, &rs) {
            (Ok(a), Ok(b)) => a == b && rh.as_ref().ok() == Some(&b.to_owned()) && ra.as_ref().ok() == Some(&b.addresses),
            (Err(v1::BinaryParseError::Parse(a)), Err(b)) => a == b && rh.as_ref().err() == Some(b) && ra.as_ref().err() == Some(b),
            _ => false,
        }
    };
    if !same {
        return Some(Mismatch { case: hex(input), expected: "text, bytes and FromStr entry points agree".into(), actual: format!("bytes={:?} text={:?} FromStr<Header>={:?} FromStr<Addresses>={:?}", rb, rs, rh, ra) });
    }
    if let Ok(h) = &rs { let o = h.to_owned(); if o != *h || o.to_string() != h.to_string() || o.protocol() != h.protocol() || o.addresses_str() != h.addresses_str() { return Some(Mismatch { case: hex(input), expected: "owned copy equals the original".into(), actual: format!("{:?} vs {:?}", o, h) }); } }
    None
}

/// C06, last sentence: a buffer that is still a possible v2 header (the specification says "incomplete") is never
/// handed to the text parser - the auto-detecting parser answers with an incomplete V2 result
fn check_auto_abs(input: &[u8]) -> Option<Mismatch> {
    let want = oracle_v2(input);
    let inc = matches!(&want, V2Out::Reject(t) if t.starts_with("Incomplete(") || t.starts_with("Partial("));
    if !inc { return None; }
    let got = match std::panic::catch_unwind(|| HeaderResult::parse(input)) { Ok(g) => g, Err(_) => return Some(Mismatch { case: hex(input), expected: "auto-detect returns".into(), actual: "PANIC in HeaderResult::parse".into() }) };
    let ok = matches!(&got, HeaderResult::V2(Err(e)) if e.is_incomplete()) && got.is_incomplete();
    if ok { None } else { Some(Mismatch { case: hex(input), expected: "auto-detect: an incomplete V2 result (the buffer is still a possible v2 header)".into(), actual: format!("{:?}", got) }) }
}

/// the per-input checks of a property (each at the property's OWN strength: what the statement pins, nothing more)
///   C01 / C02: acceptance and decoded result against the grammar (executable transcription of the specification)
///   C04 C05 C08 C13 C14 C15 C16 C17 C18: relational - the real code against itself (props.rs)
///   C06: the auto-detecting parser against the two real parsers; C11: the standard TLV walk; C12: single-corruption cases
fn per_input(prop: &str) -> Vec<(&'static str, fn(&[u8]) -> Option<Mismatch>)> {
    fn v1_accept(c: &[u8]) -> Option<Mismatch> { check_v1_parts(c, 0, false) }
    fn v2_accept(c: &[u8]) -> Option<Mismatch> { check_v2_parts(c, 0, false) }
    fn v1_all(c: &[u8]) -> Option<Mismatch> { check_v1_parts(c, 2, true) }
    fn v2_all(c: &[u8]) -> Option<Mismatch> { check_v2_parts(c, 2, true) }
    fn auto_both(c: &[u8]) -> Option<Mismatch> { check_auto(c).or_else(|| check_auto_abs(c)) }
    match prop {
        "C01" => vec![("v1", v1_accept), ("v1", c01_fromstr)],
        "C02" => vec![("v2", v2_accept)],
        "C03" => vec![("tlv", check_tlv), ("both", c03_formatters), ("v1", v1_all), ("v2", v2_all), ("both", check_auto), ("both", meta_c04), ("both", meta_c05), ("v2", meta_c13), ("v2", meta_c14), ("v1", meta_c15), ("v2", meta_c16_v2)],
        "C04" => vec![("both", meta_c04)],
        "C05" => vec![("both", meta_c05)],
        "C06" => vec![("both", auto_both)],
        "C08" => vec![("v1", meta_c08)],
        "C11" => vec![("tlv", check_tlv_walk), ("v2", c11_of_header)],
        "C13" => vec![("v2", meta_c13)],
        "C14" => vec![("v2", meta_c14)],
        "C15" => vec![("v1", meta_c15)],
        "C16" => vec![("v1", meta_c16_v1_owned), ("v2", meta_c16_v2)],
        "C17" => vec![("v2", meta_c17)],
        "C18" => vec![("v1", meta_c18)],
        _ => vec![],
    }
}

fn run(prop: &str, one: Option<&str>) -> (Option<Mismatch>, usize) {
    let mut n = 0usize;
    // C03 is about panics and the TLV item bound only: other disagreements are not its business
    let relevant = |m: &Mismatch| prop != "C03" || m.actual.starts_with("PANIC") || m.expected.contains("items (n/3 + 1)");
    let checks = per_input(prop);
    if let Some(h) = one {
        let c = unhex(h);
        for (_, f) in &checks { if let Some(m) = f(&c) { if relevant(&m) { return (Some(m), 1); } } }
        if prop == "C12" || prop == "C16" { return (check_v1_lvl(&c, 2).or_else(|| check_v2_lvl(&c, 2)), 1); }
        return (None, 1);
    }
    let (mut v1c, mut v2c, mut tlvc): (Option<Vec<Vec<u8>>>, Option<Vec<Vec<u8>>>, Option<Vec<Vec<u8>>>) = (None, None, None);
    for (set, f) in &checks {
        let sets: Vec<&Vec<Vec<u8>>> = match *set {
            "v1" => vec![&*v1c.get_or_insert_with(v1_cases)],
            "v2" => vec![&*v2c.get_or_insert_with(v2_cases)],
            "tlv" => vec![&*tlvc.get_or_insert_with(tlv_cases)],
            _ => { v1c.get_or_insert_with(v1_cases); v2c.get_or_insert_with(v2_cases); vec![v1c.as_ref().unwrap(), v2c.as_ref().unwrap()] }
        };
        for cases in sets { for c in cases.iter() { n += 1; if let Some(m) = f(c) { if relevant(&m) { return (Some(m), n); } } } }
    }
    if prop == "C12" { let (m, k) = check_c12_domain(); return (m, n + k); }
    if prop == "C16" { let (m, k) = check_c16_domain(); if m.is_some() { return (m, n + k); } n += k; }
    if ["C07", "C09", "C10", "C13"].contains(&prop) {
        for (w, ops) in builder_histories() {
            // C07 / C13 speak about headers built WITHOUT an explicit length
            if ["C07", "C13"].contains(&prop) && ops.iter().any(|o| matches!(o, Op::SetLen(_))) { continue; }
            n += 1; if let Some(m) = check_builder(w, &ops, prop) { return (Some(m), n); }
        }
    }
    if ["C07", "C10", "C20"].contains(&prop) { n += 1; if let Some(m) = check_encoders(prop == "C20") { return (Some(m), n); } }
    if prop == "C20" { n += 1; if let Some(m) = check_c20_values() { return (Some(m), n); } }
    if ["C07", "C10", "C13"].contains(&prop) { let (m, k) = check_builder_ctors(); if m.is_some() { return (m, n + k); } n += k; }
    if prop == "C07" { let (m, k) = check_c07_roundtrip(); if m.is_some() { return (m, n + k); } n += k; }
    if prop == "C19" { n += 1; if let Some(m) = check_constructors() { return (Some(m), n); } }
    if prop == "C08" { n += 1; if let Some(m) = check_format() { return (Some(m), n); } }
    (None, n)
}

fn json_escape(s: &str) -> String { s.chars().flat_map(|c| match c { '"' => "\\\"".chars().collect::<Vec<_>>(), '\\' => "\\\\".chars().collect(), '\n' => "\\n".chars().collect(), '\r' => "\\r".chars().collect(), c if (c as u32) < 32 => format!("\\u{:04x}", c as u32).chars().collect(), c => vec![c] }).collect() }

fn main() {
    std::panic::set_hook(Box::new(|_| {}));
    let args: Vec<String> = std::env::args().collect();
    let prop = args.get(1).map(|s| s.as_str()).unwrap_or("C01");
    let one = if args.get(2).map(|s| s.as_str()) == Some("--case") { args.get(3).map(|s| s.as_str()) } else { None };
    let (m, n) = match std::panic::catch_unwind(|| run(prop, one)) { Ok(x) => x, Err(_) => (Some(Mismatch { case: String::new(), expected: "the sweep returns".into(), actual: "PANIC in the code under test during the sweep".into() }), 0) };
    match m {
        Some(m) => println!("{{\"found\":true,\"cases\":{},\"case\":\"{}\",\"expected\":\"{}\",\"actual\":\"{}\"}}", n, json_escape(&m.case), json_escape(&m.expected), json_escape(&m.actual)),
        None => println!("{{\"found\":false,\"cases\":{}}}", n),
    }
}
