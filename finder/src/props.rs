//! Property-level checks of the RELATIONAL properties: the real code against ITSELF, exactly as the statements put
//! it ("whenever an input is accepted ...", "for every accepted header ...").  No specification of the accepted
//! language or of the error kinds is involved, so a change that keeps the property - a wider or narrower grammar,
//! another error kind, another tie-break - is not reported by these, while a change that breaks the relation is
//! reported with the input that shows it.  Used (bounded, never counted as proof) when only a contract clause
//! STRONGER than the property failed, and to exhibit an input after an obligation of the property failed.
use super::*;
use std::panic::AssertUnwindSafe;

fn mm(input: &[u8], expected: impl Into<String>, actual: impl Into<String>) -> Option<Mismatch> {
    Some(Mismatch { case: hex(input), expected: expected.into(), actual: actual.into() })
}
pub fn guarded(input: &[u8], what: &str, f: impl FnOnce() -> Option<Mismatch>) -> Option<Mismatch> {
    match std::panic::catch_unwind(AssertUnwindSafe(f)) { Ok(m) => m, Err(_) => mm(input, format!("{} returns", what), format!("PANIC in {}", what)) }
}

fn suffixes() -> Vec<Vec<u8>> {
    let mut v: Vec<Vec<u8>> = vec![b"X".to_vec(), b"\r\n".to_vec(), b"\r".to_vec(), b"\n".to_vec(), b"\x00".to_vec(), b"\xff\xfe".to_vec(), "\u{e9}".as_bytes().to_vec(), b" ".to_vec(), b"0".to_vec(),
        b"PROXY TCP4 1.2.3.4 5.6.7.8 1 2\r\n".to_vec(), b"GET / HTTP/1.1\r\n\r\n".to_vec(), vec![b'y'; 300]];
    v.push(v2_header(0x21, 0x11, 12, &[1, 2, 3, 4, 5, 6, 7, 8, 0, 80, 1, 187]));
    v.push(vec![0u8; 70000]);
    v
}

// ------------------------------------------------------------------------------------------------------------- C04
pub fn meta_c04(input: &[u8]) -> Option<Mismatch> {
    guarded(input, "a parser (C04)", || {
        let sfx = suffixes();
        if let Ok(h) = v1::Header::try_from(input) {
            let hb = h.header.as_bytes();
            let cr = input.iter().position(|&b| b == 13);
            if !(input.starts_with(hb) && cr.map(|p| p + 2) == Some(hb.len()) && hb.ends_with(b"\r\n")) {
                return mm(input, "v1 (bytes): the reported header is the input's line through its CRLF", format!("header {:?}", h.header));
            }
            for s in &sfx {
                let mut ext = input.to_vec(); ext.extend_from_slice(s);
                match v1::Header::try_from(&ext[..]) { Ok(h2) if h2 == h => {}, other => return mm(&ext, format!("v1 (bytes): same result as without the {} trailing bytes: {:?}", s.len(), h), format!("{:?}", other)) }
            }
            match v1::Header::try_from(hb) { Ok(h2) if h2 == h => {}, other => return mm(hb, format!("v1 (bytes): the reported header alone parses to the same result {:?}", h), format!("{:?}", other)) }
        }
        if let Ok(text) = std::str::from_utf8(input) {
            if let Ok(h) = v1::Header::try_from(text) {
                let ht: &str = h.header.as_ref();
                if !(text.starts_with(ht) && text.find('\r').map(|p| p + 2) == Some(ht.len()) && ht.ends_with("\r\n")) {
                    return mm(input, "v1 (text): the reported header is the input's line through its CRLF", format!("header {:?}", h.header));
                }
                for s in &sfx {
                    let Ok(st) = std::str::from_utf8(s) else { continue };
                    let ext = format!("{}{}", text, st);
                    match v1::Header::try_from(ext.as_str()) { Ok(h2) if h2 == h => {}, other => return mm(ext.as_bytes(), format!("v1 (text): same result as without the {} trailing bytes: {:?}", s.len(), h), format!("{:?}", other)) }
                }
                match v1::Header::try_from(ht) { Ok(h2) if h2 == h => {}, other => return mm(ht.as_bytes(), format!("v1 (text): the reported header alone parses to the same result {:?}", h), format!("{:?}", other)) }
            }
        }
        if let Ok(h) = v2::Header::try_from(input) {
            let hb: &[u8] = h.header.as_ref();
            let declared = if input.len() >= 16 { (input[14] as usize) * 256 + input[15] as usize } else { usize::MAX };
            if !(input.starts_with(hb) && hb.len() == 16usize.wrapping_add(declared)) {
                return mm(&input[..input.len().min(64)], "v2: the reported header is the first 16 + declared-length bytes of the input", format!("{} header bytes, declared length {}", hb.len(), declared));
            }
            for s in &sfx {
                let mut ext = input.to_vec(); ext.extend_from_slice(s);
                match v2::Header::try_from(&ext[..]) { Ok(h2) if h2 == h => {}, other => return mm(&ext[..ext.len().min(400)], format!("v2: same result as without the {} trailing bytes", s.len()), format!("{:?}", other.map(|x| x.header.len()))) }
            }
            match v2::Header::try_from(hb) { Ok(h2) if h2 == h => {}, other => return mm(&hb[..hb.len().min(400)], "v2: the reported header alone parses to the same result", format!("{:?}", other.map(|x| x.header.len()))) }
        }
        let r = HeaderResult::parse(input);
        let hb: Option<Vec<u8>> = match &r { HeaderResult::V1(Ok(h)) => Some(h.header.as_bytes().to_vec()), HeaderResult::V2(Ok(h)) => Some(h.header.to_vec()), _ => None };
        if let Some(hb) = hb {
            for s in &sfx {
                let mut ext = input.to_vec(); ext.extend_from_slice(s);
                let r2 = HeaderResult::parse(&ext[..]);
                if r2 != r { return mm(&ext[..ext.len().min(400)], format!("auto-detect: same result as without the {} trailing bytes", s.len()), format!("{:.300}", format!("{:?}", r2))); }
            }
            let r3 = HeaderResult::parse(&hb[..]);
            if r3 != r { return mm(&hb[..hb.len().min(400)], "auto-detect: the reported header alone parses to the same result", format!("{:.300}", format!("{:?}", r3))); }
        }
        None
    })
}

// ------------------------------------------------------------------------------------------------------------- C05
fn flags_consistent<R: PartialResult>(r: &R) -> bool { r.is_complete() != r.is_incomplete() }

pub fn meta_c05(input: &[u8]) -> Option<Mismatch> {
    guarded(input, "a parser (C05)", || {
        // is_complete is the negation of is_incomplete; a success is never incomplete
        let r1 = v1::Header::try_from(input);
        let r2 = v2::Header::try_from(input);
        let ra = HeaderResult::parse(input);
        let e1 = match &r1 { Err(e) => flags_consistent(e) && e.is_incomplete() == r1.is_incomplete(), Ok(_) => !r1.is_incomplete() };
        let e2 = match &r2 { Err(e) => flags_consistent(e) && e.is_incomplete() == r2.is_incomplete(), Ok(_) => !r2.is_incomplete() };
        let ea = match &ra { HeaderResult::V1(Ok(_)) | HeaderResult::V2(Ok(_)) => !ra.is_incomplete(), _ => true };
        if !(flags_consistent(&r1) && flags_consistent(&r2) && flags_consistent(&ra) && e1 && e2 && ea) {
            return mm(input, "is_complete == !is_incomplete, and a success is not incomplete", format!("v1: {}/{} v2: {}/{} auto: {}/{}", r1.is_complete(), r1.is_incomplete(), r2.is_complete(), r2.is_incomplete(), ra.is_complete(), ra.is_incomplete()));
        }
        if let Ok(text) = std::str::from_utf8(input) {
            let rs = v1::Header::try_from(text);
            let es = match &rs { Err(e) => flags_consistent(e) && e.is_incomplete() == rs.is_incomplete(), Ok(_) => !rs.is_incomplete() };
            if !(flags_consistent(&rs) && es) { return mm(input, "text entry: is_complete == !is_incomplete, and a success is not incomplete", format!("{}/{}", rs.is_complete(), rs.is_incomplete())); }
        }
        // every proper prefix of an accepted header is incomplete, through its version's entry points and auto-detect
        if let Ok(h) = &r1 {
            let hb = h.header.as_bytes();
            for k in 0..hb.len() {
                let p = &hb[..k];
                let r = v1::Header::try_from(p);
                if r.is_ok() || !r.is_incomplete() || r.is_complete() { return mm(p, format!("v1 (bytes): incomplete ({} of {} header bytes)", k, hb.len()), format!("{:?}", r)); }
                let a = HeaderResult::parse(p);
                if matches!(a, HeaderResult::V1(Ok(_)) | HeaderResult::V2(Ok(_))) || !a.is_incomplete() || a.is_complete() { return mm(p, format!("auto-detect: incomplete ({} of {} v1 header bytes)", k, hb.len()), format!("{:?}", a)); }
                if let Ok(t) = std::str::from_utf8(p) {
                    let r = v1::Header::try_from(t);
                    if r.is_ok() || !r.is_incomplete() || r.is_complete() { return mm(p, format!("v1 (text): incomplete ({} of {} header bytes)", k, hb.len()), format!("{:?}", r)); }
                }
            }
        }
        if let Ok(h) = &r2 {
            let hb: &[u8] = h.header.as_ref();
            let ks: Vec<usize> = if hb.len() <= 400 { (0..hb.len()).collect() } else { (0..80).chain([hb.len() / 2, hb.len() - 300, hb.len() - 2, hb.len() - 1]).collect() };
            for k in ks {
                let p = &hb[..k];
                let r = v2::Header::try_from(p);
                if r.is_ok() || !r.is_incomplete() || r.is_complete() { return mm(&p[..k.min(64)], format!("v2: incomplete ({} of {} header bytes)", k, hb.len()), format!("{:?}", r.map(|x| x.header.len()))); }
                let a = HeaderResult::parse(p);
                if matches!(a, HeaderResult::V1(Ok(_)) | HeaderResult::V2(Ok(_))) || !a.is_incomplete() || a.is_complete() { return mm(&p[..k.min(64)], format!("auto-detect: incomplete ({} of {} v2 header bytes)", k, hb.len()), format!("{:.200}", format!("{:?}", a))); }
            }
        }
        None
    })
}

// ------------------------------------------------------------------------------------------------------------- C18
pub fn meta_c18(input: &[u8]) -> Option<Mismatch> {
    guarded(input, "the v1 parser (C18)", || {
        // the first CR is followed by a byte, or 107 bytes have been supplied ("never has to buffer more than 107 bytes")
        let cond = input.len() >= 107 || matches!(input.iter().position(|&b| b == 13), Some(p) if input.len() > p + 1);
        if !cond { return None; }
        let r = v1::Header::try_from(input);
        if r.is_incomplete() || !r.is_complete() { return mm(input, "v1 (bytes): a complete result (first CR followed by a byte, or 107 bytes supplied)", format!("{:?} incomplete={}", r, r.is_incomplete())); }
        if let Ok(t) = std::str::from_utf8(input) {
            let r = v1::Header::try_from(t);
            if r.is_incomplete() || !r.is_complete() { return mm(input, "v1 (text): a complete result (first CR followed by a byte, or 107 bytes supplied)", format!("{:?} incomplete={}", r, r.is_incomplete())); }
        }
        None
    })
}

// ------------------------------------------------------------------------------------------------------------- C15
fn input_line(input: &[u8]) -> &[u8] { match input.iter().position(|&b| b == 13) { Some(p) => &input[..(p + 2).min(input.len())], None => input } }
fn v1_views(input: &[u8], h: &v1::Header<'_>, entry: &str) -> Option<Mismatch> {
    let text: &str = h.header.as_ref();
    if text.as_bytes() != input_line(input) { return mm(input, format!("{}: the header text is the line it was parsed from", entry), format!("{:?}", text)); }
    let (p, a, s) = (h.protocol().to_string(), h.addresses_str().to_string(), h.to_string());
    let body = text.strip_prefix("PROXY ").and_then(|t| t.strip_suffix("\r\n"));
    let Some(body) = body else { return mm(input, format!("{}: header text of the form PROXY ...CRLF", entry), format!("{:?}", text)) };
    let second = body.split(' ').next().unwrap_or("");
    let kind = match h.addresses { v1::Addresses::Unknown => "UNKNOWN", v1::Addresses::Tcp4(_) => "TCP4", v1::Addresses::Tcp6(_) => "TCP6" };
    let rest = &body[second.len()..];
    let want_a = rest.strip_prefix(' ').unwrap_or(rest);
    let o = h.to_owned();
    if p != second || p != kind || a != want_a || s != text || o.to_string() != text || o.protocol() != p || o.addresses_str() != a {
        return mm(input, format!("{}: protocol {:?} (kind {}), addresses_str {:?}, to_string == header text", entry, second, kind, want_a), format!("protocol={:?} addresses_str={:?} to_string={:?}", p, a, s));
    }
    None
}
pub fn meta_c15(input: &[u8]) -> Option<Mismatch> {
    guarded(input, "a view of the parsed v1 header (C15)", || {
        if let Ok(h) = v1::Header::try_from(input) { if let Some(m) = v1_views(input, &h, "bytes entry") { return Some(m); } }
        if let Ok(t) = std::str::from_utf8(input) {
            if let Ok(h) = v1::Header::try_from(t) { if let Some(m) = v1_views(input, &h, "text entry") { return Some(m); } }
            if let Ok(h) = t.parse::<v1::Header<'static>>() { if let Some(m) = v1_views(input, &h, "FromStr<Header>") { return Some(m); } }
        }
        None
    })
}

// ------------------------------------------------------------------------------------------------------------- C08
/// "a parsed header formats back to exactly the text it was parsed from"
pub fn meta_c08(input: &[u8]) -> Option<Mismatch> {
    guarded(input, "formatting a parsed v1 header (C08)", || {
        if let Ok(h) = v1::Header::try_from(input) { let t: &str = h.header.as_ref(); if h.to_string() != t || !input.starts_with(h.to_string().as_bytes()) { return mm(input, format!("formats back to {:?}", t), format!("{:?}", h.to_string())); } }
        if let Ok(t) = std::str::from_utf8(input) {
            if let Ok(h) = v1::Header::try_from(t) { let x: &str = h.header.as_ref(); if h.to_string() != x || !t.starts_with(&h.to_string()) { return mm(input, format!("formats back to {:?}", x), format!("{:?}", h.to_string())); } }
            if let Ok(h) = t.parse::<v1::Header<'static>>() { if h.to_string().as_bytes() != input_line(input) { return mm(input, "FromStr<Header>: formats back to the line it was parsed from", format!("{:?}", h.to_string())); } }
        }
        None
    })
}

// ------------------------------------------------------------------------------------------------------------- C14
fn fam_nibble(f: v2::AddressFamily) -> u8 { match f { v2::AddressFamily::Unspecified => 0x00, v2::AddressFamily::IPv4 => 0x10, v2::AddressFamily::IPv6 => 0x20, v2::AddressFamily::Unix => 0x30 } }
pub fn meta_c14(input: &[u8]) -> Option<Mismatch> {
    guarded(input, "a view of the parsed v2 header (C14)", || {
        let Ok(h) = v2::Header::try_from(input) else { return None };
        let hb: &[u8] = h.header.as_ref();
        if hb.len() < 16 { return mm(&input[..input.len().min(64)], "at least the 16-byte fixed part", format!("{} header bytes", hb.len())); }
        let (ab, tb) = (h.address_bytes(), h.tlv_bytes());
        let fam = h.address_family();
        let size = fam_size(fam_nibble(fam));
        let declared = (hb[14] as usize) * 256 + hb[15] as usize;
        let mut cat = ab.to_vec(); cat.extend_from_slice(tb);
        let views = cat[..] == hb[16..] && (if fam == v2::AddressFamily::Unspecified { ab.len() == hb.len() - 16 } else { ab.len() == size })
            && h.length() + 16 == h.len() && h.len() == h.as_bytes().len() && h.as_bytes() == hb && h.length() == declared
            && fam_nibble(fam) == (hb[13] & 0xF0) && h.addresses.address_family() == fam;
        let be = |x: &[u8]| (x[0] as u16) * 256 + x[1] as u16;
        let decoded = match h.addresses {
            v2::Addresses::Unspecified => true,
            v2::Addresses::IPv4(x) => ab.len() == 12 && x.source_address.octets() == ab[0..4] && x.destination_address.octets() == ab[4..8] && x.source_port == be(&ab[8..10]) && x.destination_port == be(&ab[10..12]),
            v2::Addresses::IPv6(x) => ab.len() == 36 && x.source_address.octets() == ab[0..16] && x.destination_address.octets() == ab[16..32] && x.source_port == be(&ab[32..34]) && x.destination_port == be(&ab[34..36]),
            v2::Addresses::Unix(x) => ab.len() == 216 && x.source[..] == ab[..108] && x.destination[..] == ab[108..],
        };
        if !views || !decoded {
            return mm(&input[..input.len().min(300)], "address view + TLV view == payload, sizes / lengths / family consistent, address value == big-endian decoding of the address view",
                      format!("views_ok={} decoded_ok={} family={:?} address_bytes={} tlv_bytes={} length()={} len()={} addresses={:?}", views, decoded, fam, ab.len(), tb.len(), h.length(), h.len(), h.addresses));
        }
        None
    })
}

// ------------------------------------------------------------------------------------------------------------- C13
pub fn meta_c13(input: &[u8]) -> Option<Mismatch> {
    guarded(input, "the builder / a view (C13)", || {
        let Ok(h) = v2::Header::try_from(input) else { return None };
        let hb: &[u8] = h.header.as_ref();
        if hb.len() < 16 { return None; }
        let show = |r: &std::io::Result<Vec<u8>>| match r { Ok(v) => format!("len={} head={}", v.len(), hex(&v[..v.len().min(48)])), Err(e) => format!("Err({:?})", e.kind()) };
        let case = &hb[..hb.len().min(300)];
        let raw = v2::Builder::new(hb[12], hb[13]).write_payload(h.address_bytes()).and_then(|b| b.write_payload(h.tlv_bytes())).and_then(|b| b.build());
        if raw.as_ref().ok().map(|v| &v[..]) != Some(hb) { return mm(case, format!("rebuilding from control bytes + address bytes + raw TLV bytes gives the header back (len={})", hb.len()), show(&raw)); }
        let items: Vec<_> = h.tlvs().take(h.tlv_bytes().len() / 3 + 7).collect();
        if items.iter().all(|i| i.is_ok()) {
            let mut b = v2::Builder::new(hb[12], hb[13]).write_payload(h.address_bytes());
            for it in &items { let t = it.as_ref().unwrap(); b = b.and_then(|b| b.write_tlv(t.kind, t.value.as_ref())); }
            let dec = b.and_then(|b| b.build());
            if dec.as_ref().ok().map(|v| &v[..]) != Some(hb) { return mm(case, format!("rebuilding from the decoded TLV items gives the header back (len={})", hb.len()), show(&dec)); }
            let mut b = v2::Builder::new(hb[12], hb[13]).write_payload(h.address_bytes());
            b = b.and_then(|b| b.write_payloads(items.iter().map(|i| i.as_ref().unwrap().clone())));
            let dec2 = b.and_then(|b| b.build());
            if dec2.as_ref().ok().map(|v| &v[..]) != Some(hb) { return mm(case, format!("rebuilding from the decoded TLV items (batch) gives the header back (len={})", hb.len()), show(&dec2)); }
        }
        if h.address_family() != v2::AddressFamily::Unspecified {
            let va = v2::Builder::with_addresses(h.version | h.command, h.protocol, h.addresses).write_payload(h.tlv_bytes()).and_then(|b| b.build());
            if va.as_ref().ok().map(|v| &v[..]) != Some(hb) { return mm(case, format!("rebuilding from the decoded address value gives the header back (len={})", hb.len()), show(&va)); }
            let vt = v2::Builder::with_addresses(h.version | h.command, h.protocol, h.addresses).write_payload(h.tlvs()).and_then(|b| b.build());
            if vt.as_ref().ok().map(|v| &v[..]) != Some(hb) { return mm(case, format!("rebuilding from the decoded address value + TLV section gives the header back (len={})", hb.len()), show(&vt)); }
        }
        None
    })
}

// ------------------------------------------------------------------------------------------------------------- C17
pub fn meta_c17(input: &[u8]) -> Option<Mismatch> {
    guarded(input, "the v2 parser (C17)", || {
        let case = &input[..input.len().min(64)];
        match v2::Header::try_from(input) {
            Err(v2::ParseError::Incomplete(n)) => {
                if !(input.len() < 16 && n == input.len()) { return mm(case, format!("Incomplete({}) only before the fixed part is complete ({} bytes supplied)", input.len(), input.len()), format!("Incomplete({})", n)); }
            }
            Err(v2::ParseError::Partial(have, need)) => {
                if input.len() < 16 { return mm(case, "Partial only once the 16-byte fixed part is present", format!("Partial({}, {}) on {} bytes", have, need, input.len())); }
                let declared = (input[14] as usize) * 256 + input[15] as usize;
                if !(have == input.len() - 16 && need == declared && have < need) { return mm(case, format!("Partial({}, {})", input.len() - 16, declared), format!("Partial({}, {})", have, need)); }
                for fill in [0u8, 0xff, 0x0d] {
                    let mut full = input.to_vec(); full.resize(16 + need, fill);
                    match v2::Header::try_from(&full[..]) { Ok(h) if h.header.len() == 16 + need => {}, other => return mm(&full[..full.len().min(64)], format!("supplying the {} missing bytes (value {:#x}) gives a success of {} bytes", need - have, fill, 16 + need), format!("{:?}", other.map(|x| x.header.len()))) }
                    if need - have >= 2 {
                        let mut fewer = input.to_vec(); fewer.resize(16 + need - 1, fill);
                        match v2::Header::try_from(&fewer[..]) { Err(v2::ParseError::Partial(a, b)) if a == need - 1 && b == need => {}, other => return mm(&fewer[..fewer.len().min(64)], format!("one byte short: Partial({}, {})", need - 1, need), format!("{:?}", other.map(|x| x.header.len()))) }
                        let mut one = input.to_vec(); one.push(fill);
                        match v2::Header::try_from(&one[..]) { Err(v2::ParseError::Partial(a, b)) if a == have + 1 && b == need => {}, other => return mm(&one[..one.len().min(64)], format!("one more byte: Partial({}, {})", have + 1, need), format!("{:?}", other.map(|x| x.header.len()))) }
                    }
                }
            }
            _ => {}
        }
        None
    })
}

// ------------------------------------------------------------------------------------------------------------- C16 (owned copies of v2 values)
pub fn meta_c16_v2(input: &[u8]) -> Option<Mismatch> {
    guarded(input, "an owned copy (C16)", || {
        let mut buf = input.to_vec();
        let (owned, shown, items_owned, items_shown) = {
            let Ok(h) = v2::Header::try_from(&buf[..]) else { return None };
            let o = h.to_owned();
            if o != h || o.as_bytes() != h.as_bytes() || o.address_bytes() != h.address_bytes() || o.tlv_bytes() != h.tlv_bytes() || o.length() != h.length() || o.address_family() != h.address_family() {
                return mm(&input[..input.len().min(200)], "the owned v2 header equals the original and exposes the same views", format!("{:.300}", format!("{:?}", o)));
            }
            let items: Vec<_> = h.tlvs().take(h.tlv_bytes().len() / 3 + 7).filter_map(|i| i.ok()).collect();
            let io: Vec<v2::TypeLengthValue<'static>> = items.iter().map(|t| t.to_owned()).collect();
            for (a, b) in items.iter().zip(&io) { if a != b || a.len() != b.len() || a.kind != b.kind { return mm(&input[..input.len().min(200)], "the owned TLV equals the original", format!("{:?} vs {:?}", b, a)); } }
            let is = format!("{:?}", items);
            (o, format!("{:?}", h), io, is)
        };
        for b in buf.iter_mut() { *b = 0xAA; }
        drop(buf);
        if format!("{:?}", owned) != shown || format!("{:?}", items_owned) != items_shown {
            return mm(&input[..input.len().min(200)], "owned copies unchanged after the input buffer is overwritten and dropped", "an owned copy changed");
        }
        None
    })
}
pub fn meta_c16_v1_owned(input: &[u8]) -> Option<Mismatch> {
    guarded(input, "an owned copy (C16)", || {
        let mut buf = input.to_vec();
        let (owned, shown, text) = {
            let Ok(h) = v1::Header::try_from(&buf[..]) else { return None };
            let o = h.to_owned();
            if o != h || o.to_string() != h.to_string() || o.protocol() != h.protocol() || o.addresses_str() != h.addresses_str() || o.addresses != h.addresses {
                return mm(input, "the owned v1 header equals the original and exposes the same views", format!("{:?} vs {:?}", o, h));
            }
            (o, format!("{:?}", h), h.to_string())
        };
        for b in buf.iter_mut() { *b = 0xAA; }
        drop(buf);
        if format!("{:?}", owned) != shown || owned.to_string() != text { return mm(input, "the owned v1 header is unchanged after the input buffer is overwritten and dropped", format!("{:?}", owned)); }
        None
    })
}

// ------------------------------------------------------------------------------------------------------------- C07
fn enc_header(vc: u8, afp: u8, addr: &[u8], tlvs: &[(u8, Vec<u8>)]) -> Vec<u8> {
    let mut p = addr.to_vec();
    for (k, v) in tlvs { p.push(*k); p.extend_from_slice(&(v.len() as u16).to_be_bytes()); p.extend_from_slice(v); }
    v2_header(vc, afp, p.len() as u16, &p)
}
/// build -> wire encoding -> parse back, over commands x transports x address blocks x TLV lists
pub fn check_c07_roundtrip() -> (Option<Mismatch>, usize) {
    let mut n = 0;
    let a4 = v2::IPv4::new([1, 2, 3, 4], [5, 6, 7, 8], 0x1234, 443);
    let a6 = v2::IPv6::new([0x2001, 0xdb8, 0, 0, 0, 0, 0, 1], [0xfe80, 0, 0, 0, 1, 2, 3, 4], 65535, 1);
    let mut up = [0u8; 108]; let mut uq = [0u8; 108];
    for i in 0..108 { up[i] = (i + 1) as u8; uq[i] = (200 - i) as u8; }
    let ux = v2::Unix::new(up, uq);
    let mut b6 = Vec::new(); for s in [0x2001u16, 0xdb8, 0, 0, 0, 0, 0, 1, 0xfe80, 0, 0, 0, 1, 2, 3, 4] { b6.extend_from_slice(&s.to_be_bytes()); } b6.extend_from_slice(&[0xff, 0xff, 0, 1]);
    let mut bu = up.to_vec(); bu.extend_from_slice(&uq);
    let addrs: Vec<(v2::Addresses, u8, Vec<u8>)> = vec![
        (v2::Addresses::Unspecified, 0x00, vec![]),
        (v2::Addresses::IPv4(a4), 0x10, vec![1, 2, 3, 4, 5, 6, 7, 8, 0x12, 0x34, 1, 187]),
        (v2::Addresses::IPv6(a6), 0x20, b6),
        (v2::Addresses::Unix(ux), 0x30, bu),
    ];
    let big: Vec<u8> = (0..65535usize - 216 - 3).map(|i| (i * 13 + 1) as u8).collect();
    let big3: Vec<u8> = big[..big.len() - 3].to_vec();      // ... followed by an empty TLV: again exactly 65535 bytes
    let lists: Vec<Vec<(u8, Vec<u8>)>> = vec![
        vec![], vec![(1, vec![0x68, 0x32])], vec![(4, vec![]), (0x20, vec![1, 2, 3]), (5, vec![9u8; 300]), (0xEE, vec![0])],
        vec![(2, b"example.org".to_vec()), (3, vec![0xde, 0xad, 0xbe, 0xef]), (0x30, b"ns".to_vec())], vec![(4, big)],
        vec![(4, big3), (5, vec![])],
    ];
    for (cmd, cc) in [(v2::Command::Local, 0u8), (v2::Command::Proxy, 1u8)] {
        for (pr, pc) in [(v2::Protocol::Unspecified, 0u8), (v2::Protocol::Stream, 1), (v2::Protocol::Datagram, 2)] {
            for (addr, fc, ab) in &addrs {
                for (li, tl) in lists.iter().enumerate() {
                    if li >= 4 && *fc != 0x30 { continue; }      // the maximal headers: 216 + TLVs == 65535
                    n += 1;
                    let case = format!("command={:?} transport={:?} addresses={:?} tlvs={:?}", cmd, pr, addr, tl.iter().map(|(k, v)| (*k, v.len())).collect::<Vec<_>>());
                    let want = enc_header(0x20 | cc, fc | pc, ab, tl);
                    let r = std::panic::catch_unwind(|| {
                        let mut b = Ok(v2::Builder::with_addresses(v2::Version::Two | cmd, pr, *addr));
                        for (k, v) in tl { b = b.and_then(|b| b.write_tlv(*k, &v[..])); }
                        let got = b.and_then(|b| b.build());
                        let Ok(got) = got else { return Some(("the wire encoding".to_string(), format!("Err({:?})", got.err().map(|e| e.kind())))) };
                        if got != want { return Some((format!("len={} head={}", want.len(), hex(&want[..want.len().min(60)])), format!("len={} head={}", got.len(), hex(&got[..got.len().min(60)])))); }
                        let as_tlvs = v2::Builder::with_addresses(v2::Version::Two | cmd, pr, *addr).write_payloads(tl.iter().map(|(k, v)| v2::TypeLengthValue::new(*k, &v[..]))).and_then(|b| b.build());
                        if as_tlvs.as_ref().ok() != Some(&want) { return Some(("the same encoding from TypeLengthValue payloads".into(), format!("{:?}", as_tlvs.map(|v| v.len()))));  }
                        match v2::Header::try_from(&got[..]) {
                            Ok(h) => {
                                let same = h.command == cmd && h.protocol == pr && h.addresses == *addr && h.header.as_ref() == &got[..] && h.version == v2::Version::Two;
                                let items: Vec<_> = h.tlvs().collect();
                                let tl_same = *fc == 0 || (items.len() == tl.len() && items.iter().zip(tl).all(|(i, (k, v))| matches!(i, Ok(t) if t.kind == *k && t.value.as_ref() == &v[..])));
                                if !same || !tl_same { return Some(("parsing returns the same command, transport, addresses, bytes and TLV sequence".into(), format!("command={:?} transport={:?} addresses={:?} tlvs={}", h.command, h.protocol, h.addresses, items.len()))); }
                                None
                            }
                            Err(e) => Some(("the built header parses".into(), format!("{:?}", e))),
                        }
                    });
                    match r {
                        Err(_) => return (Some(Mismatch { case, expected: "no panic".into(), actual: "PANIC while building / parsing".into() }), n),
                        Ok(Some((w, g))) => return (Some(Mismatch { case, expected: w, actual: g }), n),
                        Ok(None) => {}
                    }
                }
            }
        }
    }
    (None, n)
}

// ------------------------------------------------------------------------------------------------------------- C01 (FromStr entry points)
/// the `FromStr` implementations are entry points of the v1 parser too: same acceptance, addresses and header text
pub fn c01_fromstr(input: &[u8]) -> Option<Mismatch> {
    guarded(input, "a FromStr entry point (C01)", || {
        let Ok(text) = std::str::from_utf8(input) else { return None };
        let want = oracle_v1_str(text);
        let fh = text.parse::<v1::Header<'static>>();
        let fa = text.parse::<v1::Addresses>();
        let ok = match (&want, &fh, &fa) {
            (V1Out::Accept(shown, line), Ok(h), Ok(a)) => show_v1_addr(&h.addresses) == *shown && show_v1_addr(a) == *shown && h.header.as_bytes() == &line[..]
                && line.get(6..6 + h.protocol().len()) == Some(h.protocol().as_bytes()) && shown.to_uppercase().starts_with(h.protocol()),
            (V1Out::Accept(..), _, _) => false,
            (_, Err(_), Err(_)) => true,
            _ => false,
        };
        if ok { None } else { mm(input, format!("FromStr entry points: {:?}", want), format!("FromStr<Header> {:?} / FromStr<Addresses> {:?}", fh, fa)) }
    })
}

// ------------------------------------------------------------------------------------------------------------- C11 (TLV section of an accepted header)
pub fn c11_of_header(input: &[u8]) -> Option<Mismatch> {
    guarded(input, "TLV iteration of an accepted header (C11)", || {
        let Ok(h) = v2::Header::try_from(input) else { return None };
        check_tlv_walk(h.tlv_bytes()).or_else(|| {
            let a: Vec<_> = h.tlvs().take(h.tlv_bytes().len() / 3 + 7).collect();
            let b: Vec<_> = v2::TypeLengthValues::from(h.tlv_bytes()).take(h.tlv_bytes().len() / 3 + 7).collect();
            if a != b { mm(&input[..input.len().min(200)], "tlvs() of the header == iteration of its tlv_bytes()", format!("{} vs {} items", a.len(), b.len())) } else { None }
        })
    })
}

// ------------------------------------------------------------------------------------------------------------- C20 (every kind of value)
/// every kind of encodable value into a pre-filled writer: appended after what is there, count == bytes appended,
/// `to_bytes` the same encoding; a TLV / pair too large for its 16-bit length is refused without writing anything
pub fn check_c20_values() -> Option<Mismatch> {
    use v2::WriteToHeader;
    fn one<T: WriteToHeader + ?Sized>(name: &str, v: &T, enc: &[u8]) -> Option<Mismatch> {
        let r = std::panic::catch_unwind(std::panic::AssertUnwindSafe(|| {
            let mut w = v2::Writer::from(vec![9u8, 8]);
            let n = v.write_to(&mut w);
            let out = w.finish();
            let tb = v.to_bytes();
            (n.ok(), out, tb.ok())
        }));
        match r {
            Err(_) => Some(Mismatch { case: name.into(), expected: "write_to / to_bytes return".into(), actual: "PANIC in an encoder".into() }),
            Ok((n, out, tb)) => if n != Some(enc.len()) || out.len() != 2 + enc.len() || out[..2] != [9, 8] || out[2..] != *enc || tb.as_deref() != Some(enc) {
                Some(Mismatch { case: name.into(), expected: format!("appends {} after [9, 8] and returns {}", hex(&enc[..enc.len().min(40)]), enc.len()), actual: format!("returned {:?}, writer {} bytes: {}, to_bytes {:?}", n, out.len(), hex(&out[..out.len().min(44)]), tb.map(|t| hex(&t[..t.len().min(40)]))) })
            } else { None }
        }
    }
    let a4 = v2::IPv4::new([1, 2, 3, 4], [5, 6, 7, 8], 0x1234, 443);
    let a6 = v2::IPv6::new([0x2001, 0xdb8, 0, 0, 0, 0, 0, 1], [0xfe80, 0, 0, 0, 1, 2, 3, 4], 65535, 1);
    let mut up = [0u8; 108]; let mut uq = [0u8; 108];
    for i in 0..108 { up[i] = (i + 1) as u8; uq[i] = (200 - i) as u8; }
    let mut b6 = Vec::new(); for s in [0x2001u16, 0xdb8, 0, 0, 0, 0, 0, 1, 0xfe80, 0, 0, 0, 1, 2, 3, 4] { b6.extend_from_slice(&s.to_be_bytes()); } b6.extend_from_slice(&[0xff, 0xff, 0, 1]);
    let mut bu = up.to_vec(); bu.extend_from_slice(&uq);
    let val = [7u8, 6, 5];
    let checks: Vec<Option<Mismatch>> = vec![
        one("Addresses::Unspecified", &v2::Addresses::Unspecified, &[]),
        one("Addresses::IPv4", &v2::Addresses::IPv4(a4), &[1, 2, 3, 4, 5, 6, 7, 8, 0x12, 0x34, 1, 187]),
        one("Addresses::IPv6", &v2::Addresses::IPv6(a6), &b6),
        one("Addresses::Unix", &v2::Addresses::Unix(v2::Unix::new(up, uq)), &bu),
        one("TypeLengthValue", &v2::TypeLengthValue::new(0x22u8, &val[..]), &[0x22, 0, 3, 7, 6, 5]),
        one("TypeLengthValue (empty value)", &v2::TypeLengthValue::new(4u8, &val[..0]), &[4, 0, 0]),
        one("(Type, bytes)", &(v2::Type::SSLCommonName, &val[..]), &[0x22, 0, 3, 7, 6, 5]),
        one("(u8, bytes)", &(0xEEu8, &val[..]), &[0xEE, 0, 3, 7, 6, 5]),
        one("byte slice", &val[..], &[7, 6, 5]),
        one("TLV section", &v2::TypeLengthValues::from(&[4u8, 0, 0, 1, 0, 1, 9][..]), &[4, 0, 0, 1, 0, 1, 9]),
        { let mut it = v2::TypeLengthValues::from(&[4u8, 0, 0, 1, 0, 1, 9][..]); let _ = it.next(); one("TLV section after one next()", &it, &[4, 0, 0, 1, 0, 1, 9]) },
        one("Type", &v2::Type::SSL, &[0x20]),
        one("u16", &0x1234u16, &[0x12, 0x34]),
        one("i64", &(-2i64), &(-2i64).to_be_bytes()),
    ];
    if let Some(m) = checks.into_iter().flatten().next() { return Some(m); }
    // too large for the 16-bit length: refused, and nothing written
    let big = vec![1u8; 65536];
    for which in 0..2 {
        let r = std::panic::catch_unwind(|| {
            let mut w = v2::Writer::from(vec![9u8, 8]);
            let r = if which == 0 { v2::TypeLengthValue::new(4u8, &big[..]).write_to(&mut w) } else { (4u8, &big[..]).write_to(&mut w) };
            (r.is_err(), w.finish())
        });
        match r {
            Err(_) => return Some(Mismatch { case: "a TLV with a 65536-byte value".into(), expected: "refused".into(), actual: "PANIC".into() }),
            Ok((refused, out)) => if !refused || out != vec![9u8, 8] { return Some(Mismatch { case: format!("a {} with a 65536-byte value into a writer holding [9, 8]", if which == 0 { "TypeLengthValue" } else { "(type, bytes) pair" }), expected: "refused without writing anything".into(), actual: format!("refused={} writer now holds {} bytes", refused, out.len()) }); }
        }
    }
    None
}

// ------------------------------------------------------------------------------------------------------------- builder: other constructors / control bytes
/// "the two control bytes as given (the family nibble taken from the address value when one is supplied at construction)",
/// the construction-time address block of every family, then the payloads: other control bytes, commands, transports
/// and families than the histories of `builder_histories` use
pub fn check_builder_ctors() -> (Option<Mismatch>, usize) {
    let a6 = v2::IPv6::new([0x2001, 0xdb8, 0, 0, 0, 0, 0, 1], [0xfe80, 0, 0, 0, 1, 2, 3, 4], 65535, 1);
    let mut up = [0u8; 108]; let mut uq = [0u8; 108];
    for i in 0..108 { up[i] = (i + 1) as u8; uq[i] = (200 - i) as u8; }
    let mut b6 = Vec::new(); for s in [0x2001u16, 0xdb8, 0, 0, 0, 0, 0, 1, 0xfe80, 0, 0, 0, 1, 2, 3, 4] { b6.extend_from_slice(&s.to_be_bytes()); } b6.extend_from_slice(&[0xff, 0xff, 0, 1]);
    let mut bu = up.to_vec(); bu.extend_from_slice(&uq);
    let ux = v2::Unix::new(up, uq);
    let mut n = 0;
    for variant in 0..9usize {
        for hist in 0..4usize {
            n += 1;
            let (name, vc, afp, addr): (&str, u8, u8, Vec<u8>) = match variant {
                0 => ("Builder::new(0xFF, 0xEE)", 0xFF, 0xEE, vec![]),
                1 => ("Builder::new(0x00, 0x00)", 0x00, 0x00, vec![]),
                2 => ("Builder::new(0x20, 0x02)", 0x20, 0x02, vec![]),
                3 => ("with_addresses(Two | Local, Datagram, IPv6)", 0x20, 0x22, b6.clone()),
                4 => ("with_addresses(Two | Proxy, Unspecified, Unix)", 0x21, 0x30, bu.clone()),
                5 => ("with_addresses(Two | Local, Stream, Unspecified)", 0x20, 0x01, vec![]),
                6 => ("with_addresses(Two | Proxy, Datagram, IPv4 via From<IPv4>)", 0x21, 0x12, vec![1, 2, 3, 4, 5, 6, 7, 8, 0, 80, 1, 187]),
                7 => ("with_addresses(Two | Proxy, Stream, (SocketAddr V6, SocketAddr V6))", 0x21, 0x21, b6.clone()),
                _ => ("with_addresses(Two | Proxy, Stream, (SocketAddr V4, SocketAddr V4))", 0x21, 0x11, vec![1, 2, 3, 4, 5, 6, 7, 8, 0, 80, 1, 187]),
            };
            let r = std::panic::catch_unwind(|| {
                let b = match variant {
                    0 => v2::Builder::new(0xFF, 0xEE), 1 => v2::Builder::new(0, 0), 2 => v2::Builder::new(0x20, 0x02),
                    3 => v2::Builder::with_addresses(v2::Version::Two | v2::Command::Local, v2::Protocol::Datagram, a6),
                    4 => v2::Builder::with_addresses(v2::Version::Two | v2::Command::Proxy, v2::Protocol::Unspecified, ux),
                    5 => v2::Builder::with_addresses(v2::Version::Two | v2::Command::Local, v2::Protocol::Stream, v2::Addresses::Unspecified),
                    6 => v2::Builder::with_addresses(v2::Version::Two | v2::Command::Proxy, v2::Protocol::Datagram, v2::IPv4::new([1, 2, 3, 4], [5, 6, 7, 8], 80, 443)),
                    7 => v2::Builder::with_addresses(v2::Version::Two | v2::Command::Proxy, v2::Protocol::Stream, (
                        std::net::SocketAddr::V6(std::net::SocketAddrV6::new(a6.source_address, a6.source_port, 7, 3)),
                        std::net::SocketAddr::V6(std::net::SocketAddrV6::new(a6.destination_address, a6.destination_port, 1, 2)))),
                    _ => v2::Builder::with_addresses(v2::Version::Two | v2::Command::Proxy, v2::Protocol::Stream, (
                        std::net::SocketAddr::V4(std::net::SocketAddrV4::new([1, 2, 3, 4].into(), 80)),
                        std::net::SocketAddr::V4(std::net::SocketAddrV4::new([5, 6, 7, 8].into(), 443)))),
                };
                let mut model = BuilderModel::new(vc, afp, addr.clone());
                let got = match hist {
                    0 => b.build(),
                    1 => { model.write(Some(vec![vec![7, 8, 9]])); b.write_payload(&[7u8, 8, 9][..]).and_then(|b| b.build()) }
                    3 => { // a TLV section that has already been iterated a step is still written whole
                        let sec = [4u8, 0, 0, 1, 0, 1, 9];
                        let mut it = v2::TypeLengthValues::from(&sec[..]); let _ = it.next();
                        model.write(Some(vec![sec.to_vec()])); b.write_payload(it).and_then(|b| b.build()) }
                    _ => { model.write(tlv_chunks(4, &[1, 2])); model.write(Some(vec![vec![0x12, 0x34]])); b.write_tlv(4u8, &[1u8, 2][..]).and_then(|b| b.write_payload(0x1234u16)).and_then(|b| b.build()) }
                };
                (model.build(), got.ok())
            });
            let case = format!("{} history #{}", name, hist);
            match r {
                Err(_) => return (Some(Mismatch { case, expected: "no panic".into(), actual: "PANIC in the builder".into() }), n),
                Ok((want, got)) => if want != got {
                    let sh = |v: &Option<Vec<u8>>| match v { Some(v) => format!("len={} head={}", v.len(), hex(&v[..v.len().min(48)])), None => "Err".into() };
                    return (Some(Mismatch { case, expected: sh(&want), actual: sh(&got) }), n);
                }
            }
        }
    }
    (None, n)
}

// ------------------------------------------------------------------------------------------------------------- C03 (formatters)
/// every formatter on the values the entry points return: `Display` of headers, addresses and errors, `Debug` of results
pub fn c03_formatters(input: &[u8]) -> Option<Mismatch> {
    guarded(input, "a formatter (C03)", || {
        let r1 = v1::Header::try_from(input);
        let _ = format!("{:?}", r1);
        match &r1 { Ok(h) => { let _ = (h.to_string(), h.addresses.to_string(), h.to_owned().to_string()); }, Err(e) => { let _ = e.to_string(); } }
        if let Ok(t) = std::str::from_utf8(input) {
            match v1::Header::try_from(t) { Ok(h) => { let _ = h.to_string(); }, Err(e) => { let _ = e.to_string(); } }
            if let Err(e) = t.parse::<v1::Addresses>() { let _ = e.to_string(); }
        }
        let r2 = v2::Header::try_from(input);
        let _ = format!("{:.400}", format!("{:?}", r2.as_ref().map(|h| h.header.len())));
        match &r2 {
            Ok(h) => { let _ = (h.to_string(), h.to_owned().to_string()); for i in h.tlvs().take(h.tlv_bytes().len() / 3 + 7) { match i { Ok(t) => { let _ = format!("{:?}", t.kind); }, Err(e) => { let _ = e.to_string(); } } } },
            Err(e) => { let _ = e.to_string(); }
        }
        let _ = HeaderResult::parse(input).is_complete();
        None
    })
}
