//! Executable transcription of contracts/spec_v1.rs, spec_v2.rs, spec_tlv.rs, spec_enc.rs.
use std::net::{Ipv4Addr, Ipv6Addr};

// ---- v2 ----------------------------------------------------------------------------------------
#[derive(Debug, PartialEq)]
pub enum V2Out {
    Accept { command: u8, protocol: u8, family: u8, total: usize, addresses: String },
    Reject(String),
}
const SIG: [u8; 12] = [13, 10, 13, 10, 0, 13, 10, 81, 85, 73, 84, 10];
pub fn fam_size(f: u8) -> usize { match f { 0x10 => 12, 0x20 => 36, 0x30 => 216, _ => 0 } }

pub fn oracle_v2(s: &[u8]) -> V2Out {
    if s.len() < 12 {
        return V2Out::Reject(if s == &SIG[..s.len()] { format!("Incomplete({})", s.len()) } else { "Prefix".into() });
    }
    if s[..12] != SIG { return V2Out::Reject("Prefix".into()); }
    if s.len() < 16 { return V2Out::Reject(format!("Incomplete({})", s.len())); }
    let (v, c, f, p) = (s[12] & 0xF0, s[12] & 0x0F, s[13] & 0xF0, s[13] & 0x0F);
    if v != 0x20 { return V2Out::Reject(format!("Version({})", v)); }
    if c > 1 { return V2Out::Reject(format!("Command({})", c)); }
    if ![0x00, 0x10, 0x20, 0x30].contains(&f) { return V2Out::Reject(format!("AddressFamily({})", f)); }
    if p > 2 { return V2Out::Reject(format!("Protocol({})", p)); }
    let len = (s[14] as usize) * 256 + s[15] as usize;
    if len < fam_size(f) { return V2Out::Reject(format!("InvalidAddresses({}, {})", len, fam_size(f))); }
    if s.len() < 16 + len { return V2Out::Reject(format!("Partial({}, {})", s.len() - 16, len)); }
    let b = &s[16..];
    let port = |i: usize| (b[i] as u16) * 256 + b[i + 1] as u16;
    let addresses = match f {
        0x10 => format!("IPv4(IPv4 {{ source_address: {}, source_port: {}, destination_address: {}, destination_port: {} }})",
            Ipv4Addr::new(b[0], b[1], b[2], b[3]), port(8), Ipv4Addr::new(b[4], b[5], b[6], b[7]), port(10)),
        0x20 => { let mut x = [0u8; 16]; x.copy_from_slice(&b[..16]); let mut y = [0u8; 16]; y.copy_from_slice(&b[16..32]);
            format!("IPv6(IPv6 {{ source_address: {}, source_port: {}, destination_address: {}, destination_port: {} }})", Ipv6Addr::from(x), port(32), Ipv6Addr::from(y), port(34)) }
        0x30 => format!("Unix(Unix {{ source: {:?}, destination: {:?} }})", &b[..108], &b[108..216]),
        _ => "Unspecified".into(),
    };
    V2Out::Accept { command: c, protocol: p, family: f, total: 16 + len, addresses }
}

// ---- TLV ------------------------------------------------------------------------------------------
#[derive(Debug, PartialEq)]
pub enum TlvItem { Tlv(u8, Vec<u8>), Short, Overrun(u8, usize) }
pub fn oracle_tlv_walk(s: &[u8]) -> Vec<TlvItem> {
    let mut out = Vec::new();
    let mut off = 0usize;
    while off < s.len() {
        if s.len() - off < 3 { out.push(TlvItem::Short); break; }
        let kind = s[off];
        let d = (s[off + 1] as usize) * 256 + s[off + 2] as usize;
        if s.len() - off < 3 + d { out.push(TlvItem::Overrun(kind, d)); break; }
        out.push(TlvItem::Tlv(kind, s[off + 3..off + 3 + d].to_vec()));
        off += 3 + d;
    }
    out
}

// ---- v1 -------------------------------------------------------------------------------------------
#[derive(Debug, PartialEq)]
pub enum V1Out { Accept(String, Vec<u8>), Reject(String), InvalidUtf8 }

pub fn v1_incomplete_kind(k: &str) -> bool {
    matches!(k, "Partial" | "MissingPrefix" | "MissingProtocol" | "MissingSourceAddress" | "MissingDestinationAddress" | "MissingSourcePort" | "MissingDestinationPort" | "MissingNewLine")
}
fn is_sep(b: u8) -> bool { b == b' ' || b == b'\r' }
/// splitn_spec
fn splitn(s: &[u8], n: usize) -> Vec<&[u8]> {
    let mut out = Vec::new();
    let mut rest = s;
    let mut left = n;
    while left > 0 {
        if left == 1 { out.push(rest); break; }
        match rest.iter().position(|&b| is_sep(b)) {
            None => { out.push(rest); break; }
            Some(i) => { out.push(&rest[..i]); rest = &rest[i + 1..]; left -= 1; }
        }
    }
    out
}
fn port_field(s: &[u8]) -> Option<u16> {
    if (s.starts_with(b"0") && s != b"0") || s.starts_with(b"+") { return None; }
    std::str::from_utf8(s).ok()?.parse::<u16>().ok()
}
enum Fam { V4, V6 }
fn addr_fields_kind(fam: &Fam, parts: &[&[u8]]) -> Option<&'static str> {
    if parts.len() < 3 { return Some("MissingSourceAddress"); }
    if parts.len() < 4 { return Some("MissingDestinationAddress"); }
    if parts.len() < 5 { return Some("MissingSourcePort"); }
    if parts.len() < 6 { return Some("MissingDestinationPort"); }
    if parts[5].is_empty() && parts.len() == 6 { return Some("MissingDestinationPort"); }
    let ok = |b: &[u8]| std::str::from_utf8(b).ok().map_or(false, |t| match fam { Fam::V4 => t.parse::<Ipv4Addr>().is_ok(), Fam::V6 => t.parse::<Ipv6Addr>().is_ok() });
    if !ok(parts[2]) { return Some("InvalidSourceAddress"); }
    if !ok(parts[3]) { return Some("InvalidDestinationAddress"); }
    if port_field(parts[4]).is_none() { return Some("InvalidSourcePort"); }
    if port_field(parts[5]).is_none() { return Some("InvalidDestinationPort"); }
    None
}
fn line_verdict(w: &[u8]) -> Result<String, &'static str> {
    if w.is_empty() { return Err("MissingPrefix"); }
    if w.len() > 107 { return Err("HeaderTooLong"); }
    let parts = splitn(w, 7);
    let prefix = parts[0];
    if !prefix.is_empty() && b"PROXY".starts_with(prefix) && w.ends_with(prefix) { return Err("Partial"); }
    if prefix != b"PROXY" { return Err("InvalidPrefix"); }
    if parts.len() < 2 { return Err("MissingProtocol"); }
    let proto = parts[1];
    let tcp = |fam: Fam| -> Result<String, &'static str> {
        if let Some(k) = addr_fields_kind(&fam, &parts) { return Err(k); }
        if parts.len() < 7 || parts[6].is_empty() { return Err("MissingNewLine"); }
        if parts[6] != b"\n" || !w.ends_with(b"\r\n") { return Err("InvalidSuffix"); }
        let t = |i: usize| std::str::from_utf8(parts[i]).unwrap();
        Ok(match fam {
            Fam::V4 => format!("Tcp4(IPv4 {{ source_address: {}, source_port: {}, destination_address: {}, destination_port: {} }})",
                t(2).parse::<Ipv4Addr>().unwrap(), port_field(parts[4]).unwrap(), t(3).parse::<Ipv4Addr>().unwrap(), port_field(parts[5]).unwrap()),
            Fam::V6 => format!("Tcp6(IPv6 {{ source_address: {}, source_port: {}, destination_address: {}, destination_port: {} }})",
                t(2).parse::<Ipv6Addr>().unwrap(), port_field(parts[4]).unwrap(), t(3).parse::<Ipv6Addr>().unwrap(), port_field(parts[5]).unwrap()),
        })
    };
    if proto == b"TCP4" { return tcp(Fam::V4); }
    if proto == b"TCP6" { return tcp(Fam::V6); }
    if proto == b"UNKNOWN" { return if w.ends_with(b"\r\n") { Ok("Unknown".into()) } else { Err("MissingNewLine") }; }
    if proto.is_empty() && parts.len() == 2 { return Err("MissingProtocol"); }
    if !proto.is_empty() && w.ends_with(proto) && (b"TCP4".starts_with(proto) || b"UNKNOWN".starts_with(proto)) { return Err("Partial"); }
    Err("InvalidProtocol")
}
fn terminated(w: &[u8]) -> bool { match w.iter().position(|&b| b == 13) { Some(i) => i + 1 < w.len(), None => false } }
fn header_verdict(w: &[u8]) -> Result<String, &'static str> {
    match line_verdict(w) {
        Err(k) if v1_incomplete_kind(k) && terminated(w) => Err(match k { "MissingSourcePort" => "InvalidSourcePort", "MissingDestinationPort" => "InvalidDestinationPort", _ => "InvalidSuffix" }),
        v => v,
    }
}
fn window(s: &[u8]) -> &[u8] { match s.iter().position(|&b| b == 13) { Some(cr) => &s[..(cr + 2).min(s.len())], None => s } }

/// spec_v1.rs v1_too_long: no CR within 107 bytes, or a CR at index 106 or beyond
fn too_long(s: &[u8]) -> bool { match s.iter().position(|&b| b == 13) { None => s.len() >= 107, Some(cr) => cr + 2 > 107 } }
pub fn oracle_v1_bytes(s: &[u8]) -> V1Out {
    if too_long(s) { return V1Out::Reject("HeaderTooLong".into()); }
    let w = window(s);
    if std::str::from_utf8(w).is_err() {
        // spec_v1.rs entry_verdict_bytes: a character cut short by the end of a line whose CR has not arrived yet
        // (some continuation makes the input valid UTF-8): the verdict of the longest valid prefix
        if !s.contains(&13) && utf8_truncated(s) {
            let v = (0..=s.len()).rev().find(|&v| std::str::from_utf8(&s[..v]).is_ok()).unwrap_or(0);
            return match header_verdict(&s[..v]) { Ok(a) => V1Out::Accept(a, s[..v].to_vec()), Err(k) => V1Out::Reject(k.into()) };
        }
        return V1Out::InvalidUtf8;
    }
    match header_verdict(w) { Ok(a) => V1Out::Accept(a, w.to_vec()), Err(k) => V1Out::Reject(k.into()) }
}
/// prelude.rs utf8_truncated, by definition: invalid, and some continuation (at most 3 bytes can complete a character)
/// makes it valid.  Independent of `Utf8Error`.
pub fn utf8_truncated(s: &[u8]) -> bool {
    if std::str::from_utf8(s).is_ok() { return false; }
    let cont = [0x80u8, 0x90, 0xa0, 0xbf];      // one representative of every range a continuation byte is checked against
    let mut b = s.to_vec();
    for n in 1..=3usize {
        let mut idx = vec![0usize; n];
        loop {
            b.truncate(s.len()); for &i in &idx { b.push(cont[i]); }
            if std::str::from_utf8(&b).is_ok() { return true; }
            let mut p = 0; loop { if p == n { break; } idx[p] += 1; if idx[p] < cont.len() { break; } idx[p] = 0; p += 1; }
            if p == n { break; }
        }
    }
    false
}
pub fn oracle_v1_str(s: &str) -> V1Out {
    let b = s.as_bytes();
    if too_long(b) { return V1Out::Reject("HeaderTooLong".into()); }
    let w = window(b);
    if !s.is_char_boundary(w.len()) { return V1Out::Reject("InvalidSuffix".into()); }
    match header_verdict(w) { Ok(a) => V1Out::Accept(a, w.to_vec()), Err(k) => V1Out::Reject(k.into()) }
}

// ---- builder (spec_enc.rs: BState, b_started, b_write, write_all_post) -------------------------------------
pub struct BuilderModel { pub buf: Option<Vec<u8>>, vc: u8, afp: u8, addr: Vec<u8>, pub length: Option<u16> }
pub fn tlv_chunks(kind: u8, value: &[u8]) -> Option<Vec<Vec<u8>>> {
    if value.len() > 65535 { return None; }
    Some(vec![vec![kind], (value.len() as u16).to_be_bytes().to_vec(), value.to_vec()])
}
impl BuilderModel {
    pub fn new(vc: u8, afp: u8, addr: Vec<u8>) -> Self { BuilderModel { buf: None, vc, afp, addr, length: None } }
    pub fn start(&mut self) -> bool {
        if self.buf.is_none() {
            let mut b = vec![13, 10, 13, 10, 0, 13, 10, 81, 85, 73, 84, 10, self.vc, self.afp];
            b.extend_from_slice(&self.length.unwrap_or(0).to_be_bytes());
            b.extend_from_slice(&self.addr);
            self.buf = Some(b);
        }
        true
    }
    /// one payload given as the chunks its encoder hands to `write_all` (None: the encoder refuses it)
    pub fn write(&mut self, chunks: Option<Vec<Vec<u8>>>) -> bool { self.start(); self.write_started(chunks) }
    pub fn write_started(&mut self, chunks: Option<Vec<Vec<u8>>>) -> bool {
        let Some(chunks) = chunks else { return false };
        let buf = self.buf.as_mut().unwrap();
        for c in chunks {
            if c.is_empty() { continue; }
            // (no size limit in the model: where the Writer refuses is pinned by no property; what matters is that
            // whatever a history that SUCCEEDS has written is all there - `check_builder` ends a history the real code refuses)
            buf.extend_from_slice(&c);
        }
        true
    }
    pub fn build(mut self) -> Option<Vec<u8>> {
        self.start();
        let mut b = self.buf.take().unwrap();
        let len = match self.length { Some(l) => l, None => u16::try_from(b.len() - 16).ok()? };
        b[14..16].copy_from_slice(&len.to_be_bytes());
        Some(b)
    }
}
