"""Driver for the contract-based checks (see bin/check)."""
import argparse
import hashlib
import json
import os
import re
import shutil
import subprocess
import sys
import tempfile
import time

VERIF = os.path.abspath(os.path.join(os.path.dirname(os.path.abspath(__file__)), ".."))
REPO = os.environ.get("VERIF_REPO", "/repo")
BUILD = os.path.join(VERIF, "build")
CONTRACTS = os.path.join(VERIF, "contracts")
# evidence/ is only written for runs against the real /repo; runs against a scratch copy (VERIF_REPO,
# used for seeded changes) write to build/evidence-scratch so that committed evidence is never clobbered
EVID = (os.path.join(VERIF, "evidence") if os.path.realpath(REPO) == "/repo" and os.environ.get("VERIF_EVIDENCE_SCRATCH") != "1"
        else os.path.join(BUILD, "evidence-scratch"))
REPLAYS = os.path.join(VERIF, "replays")

VERIFICATION_FAILURE = (
    "postcondition not satisfied",
    "precondition not satisfied",
    "assertion failed",
    "possible arithmetic underflow/overflow",
    "possible division by zero",
    "invariant not satisfied",
    "loop invariant not preserved",
    "loop invariant not satisfied",
    "decreases not satisfied",
    "possible bit shift underflow/overflow",
    "unreachable",
    "index out of bounds",
    "could not prove termination",
    "cannot show invariant",
    "precondition not satisfied",
    "unable to prove",
    "recursive call",
    "possible overflow",
    "possible",
)
UNDECIDED_MARKERS = ("Resource limit", "rlimit", "timed out", "timeout")


class Undecided(Exception):
    pass


def log(msg):
    print(msg, flush=True)


def sha_file(path):
    h = hashlib.sha256()
    with open(path, "rb") as f:
        h.update(f.read())
    return h.hexdigest()


# --------------------------------------------------------------------------------------
# extraction + Verus
# --------------------------------------------------------------------------------------
def run_extract(workdir, force_external=()):
    out = os.path.join(workdir, "ppp_verus.rs")
    cmd = [sys.executable, os.path.join(VERIF, "extract", "extract.py"), "--repo", REPO,
           "--contracts", CONTRACTS, "--out", out, "--vacuity", "--fallback"]
    if force_external:
        cmd += ["--external-body", ";".join(sorted(force_external))]
    p = subprocess.run(cmd, capture_output=True, text=True)
    if p.returncode != 0:
        raise Undecided("extraction failed: " + (p.stderr.strip() or p.stdout.strip()))
    with open(out + ".map.json") as f:
        meta = json.load(f)
    return out, meta


def verus_version():
    try:
        p = subprocess.run(["verus", "--version"], capture_output=True, text=True, timeout=60)
        m = re.search(r"Version:\s*(\S+)", p.stdout)
        return m.group(1) if m else "unknown"
    except Exception:
        return "unknown"


def run_verus(path, extra=(), multiple_errors=40, rlimit=None, timeout=1800):
    """returns dict(json=..., diags=[...], wall_s=..., cmd=...)  -- cached by content hash"""
    os.makedirs(os.path.join(BUILD, "cache"), exist_ok=True)
    key = hashlib.sha256((sha_file(path) + "|" + " ".join(extra) + f"|{multiple_errors}|{rlimit}|" + verus_version()).encode()).hexdigest()
    cpath = os.path.join(BUILD, "cache", key + ".json")
    cmd = ["verus", path, "--output-json", "--time-expanded", "--multiple-errors", str(multiple_errors)]
    if rlimit:
        cmd += ["--rlimit", str(rlimit)]
    cmd += list(extra) + ["--", "--error-format=json"]
    if os.environ.get("VERIF_NO_CACHE") != "1" and os.path.exists(cpath):
        with open(cpath) as f:
            res = json.load(f)
        res["cache_hit"] = True
        return res
    t0 = time.time()
    env = dict(os.environ)
    try:
        p = subprocess.run(cmd, capture_output=True, text=True, timeout=timeout, env=env, cwd=os.path.dirname(path))
    except subprocess.TimeoutExpired:
        raise Undecided("verus timed out")
    wall = time.time() - t0
    diags = []
    for ln in p.stderr.split("\n"):
        ln = ln.strip()
        if ln.startswith("{"):
            try:
                d = json.loads(ln)
            except ValueError:
                continue
            if d.get("$message_type") == "diagnostic":
                diags.append(d)
    try:
        j = json.loads(p.stdout[p.stdout.index("{"):])
    except Exception:
        j = None
    shown = " ".join("build/<run>/" + os.path.basename(c) if c == path else c for c in cmd)
    res = {"json": j, "diags": diags, "wall_s": wall, "cmd": shown, "returncode": p.returncode,
           "stderr_tail": p.stderr[-4000:] if j is None else "", "cache_hit": False}
    with open(cpath + ".tmp", "w") as f:
        json.dump(res, f)
    os.replace(cpath + ".tmp", cpath)
    return res


def function_results(vjson):
    """name -> dict(success, time_ms, mode)"""
    out = {}
    if not vjson:
        return out
    smt = vjson.get("times-ms", {}).get("smt", {})
    for mod in smt.get("smt-run-module-times", []):
        for fb in mod.get("function-breakdown", []):
            out[fb["function"]] = {"success": fb.get("success"), "time_ms": fb.get("time-micros", 0) / 1000.0,
                                   "mode": fb.get("mode:"), "rlimit": fb.get("rlimit")}
    return out


def classify(diags, meta):
    """split diagnostics into verification failures (mapped to clauses / functions) and hard
    errors.  returns (failures, hard_errors, undecided)"""
    linemap = meta["linemap"]
    fprops = {(f["src"], f["item"]): f for f in meta["functions"]}
    failures, hard, undec = [], [], []
    for d in diags:
        if d.get("level") == "note" and "not all errors may have been reported" in d.get("message", ""):
            # Verus stops after --multiple-errors failures per function: the failures it did not report may belong to
            # ANY clause of that function, so the function's props and all its clause tags count as failed
            tfn = None
            for sp in d.get("spans", []):
                for ln in range(sp["line_start"], sp["line_end"] + 1):
                    info = linemap[ln - 1] if 0 < ln <= len(linemap) else None
                    if info and "fn" in info and "src" in info:
                        tfn = (info["src"], info["fn"])
                        break
                if tfn:
                    break
            if tfn:
                tg = set((fprops.get(tfn) or {}).get("props", []))
                for c in meta.get("clauses", []):
                    if (c["src"], c["fn"]) == tfn:
                        tg.update(t for t in c["tags"] if re.fullmatch(r"C\d+", t))
                failures.append({"message": "more obligations of this function failed than the verifier reported (--multiple-errors limit)", "tags": sorted(tg),
                                 "dep_tags": [], "clauses": [], "fn": tfn[1], "where": [f"{tfn[0]} in {tfn[1]} (list of failures truncated)"],
                                 "spec_only": False, "rendered": d.get("rendered", "")})
            continue
        if d.get("level") != "error":
            continue
        msg = d.get("message", "")
        if msg.startswith("aborting due to"):
            continue
        if any(m in msg for m in UNDECIDED_MARKERS):
            ufn = None
            for sp in d.get("spans", []):
                for ln in range(sp["line_start"], sp["line_end"] + 1):
                    info = linemap[ln - 1] if 0 < ln <= len(linemap) else None
                    if info and "fn" in info and "src" in info:
                        ufn = (info["src"], info["fn"])
                        break
                if ufn:
                    break
            undec.append({"message": msg, "fn": ufn})
            continue
        if not any(msg.startswith(m) or m in msg for m in VERIFICATION_FAILURE):
            hard.append(d.get("rendered") or msg)
            continue
        tags = set()
        dep_tags = set()
        clause_ids = []
        fns = []
        where = []
        in_spec_file = False
        body_fn = None
        for sp in d.get("spans", []):
            seen_body = None
            for ln in range(sp["line_start"], sp["line_end"] + 1):
                info = linemap[ln - 1] if 0 < ln <= len(linemap) else None
                if not info:
                    continue
                if "clause" in info:
                    if info["clause"] not in clause_ids:
                        clause_ids.append(info["clause"])
                        where.append(f"clause {info['clause']} ({sp.get('label')})")
                    for t in info.get("tags", []):
                        (dep_tags if t.startswith("~") else tags).add(t.lstrip("~"))
                elif "fn" in info and "src" in info:
                    body_fn = (info["src"], info["fn"])
                    if seen_body is None:
                        seen_body = [info["src"], info.get("line"), info.get("line"), info["fn"]]
                    else:
                        seen_body[2] = info.get("line")
                elif "file" in info or "sidecar" in info:
                    f = info.get("file") or ("side-car of " + info.get("sidecar"))
                    # a failing proof inside the prelude / spec / lemma files is a machinery error
                    # (a failed *precondition of an assumed std contract* has a body span as well
                    # and is attributed to the calling function below)
                    in_spec_file = True
                    w = f"{f}:{info.get('line')} ({sp.get('label')})"
                    if w not in where:
                        where.append(w)
            if seen_body:
                rng = f"{seen_body[1]}" if seen_body[1] == seen_body[2] else f"{seen_body[1]}-{seen_body[2]}"
                where.append(f"{seen_body[0]}:{rng} in {seen_body[3]} ({sp.get('label')})")
        if body_fn and not tags and not dep_tags:
            # built-in obligation (overflow, index, slice, callee precondition w/o tags, assert): the function
            # may panic or use an assumed model outside its precondition, and Verus ASSUMES the failed
            # obligation for the rest of the body - so every clause proved on this function is void:
            # the failure counts for the function's `props:` and for the tags of all its clauses
            rec = fprops.get(body_fn)
            if rec:
                tags.update(rec.get("props", []))
            for c in meta.get("clauses", []):
                if (c["src"], c["fn"]) == body_fn:
                    tags.update(t for t in c["tags"] if re.fullmatch(r"C\d+", t))
        if body_fn:
            fns.append(body_fn[1])
        failures.append({"message": msg, "tags": sorted(tags), "dep_tags": sorted(dep_tags), "clauses": clause_ids,
                         "fn": fns[0] if fns else None, "where": where, "spec_only": in_spec_file and not body_fn and not clause_ids,
                         "rendered": d.get("rendered", "")})
    return failures, hard, undec


def hard_error_functions(diags, meta):
    """functions (src::key) in whose bodies the non-verification errors (unsupported construct, type
    error) are located; empty when an error is outside any extracted function body"""
    linemap = meta["linemap"]
    out = set()
    for d in diags:
        if d.get("level") != "error":
            continue
        msg = d.get("message", "")
        if msg.startswith("aborting due to") or any(msg.startswith(m) or m in msg for m in VERIFICATION_FAILURE) or any(m in msg for m in UNDECIDED_MARKERS):
            continue
        found = None
        for sp in d.get("spans", []):
            if not sp.get("is_primary"):
                continue
            info = linemap[sp["line_start"] - 1] if 0 < sp["line_start"] <= len(linemap) else None
            if info and "fn" in info and "src" in info and "clause" not in info:
                found = f"{info['src']}::{info['fn']}"
        if not found:
            return set()
        out.add(found)
    return out


# --------------------------------------------------------------------------------------
# lemma index
# --------------------------------------------------------------------------------------
def lemma_index():
    """lemma name -> props, from `// [props: Cxx ...]` comment lines in contracts/lemmas_*.rs"""
    idx = {}
    for name in sorted(os.listdir(CONTRACTS)):
        if not (name.startswith("lemmas_") and name.endswith(".rs")):
            continue
        pending = None
        with open(os.path.join(CONTRACTS, name)) as f:
            for ln in f:
                m = re.match(r"\s*//\s*\[props:\s*([^\]]*)\]", ln)
                if m:
                    pending = m.group(1).replace(",", " ").split()
                    continue
                m = re.match(r"\s*(?:pub\s+)?(?:broadcast\s+)?proof\s+fn\s+(\w+)", ln)
                if m:
                    idx[m.group(1)] = {"props": pending or [], "file": "contracts/" + name}
                    pending = None
    return idx


def trusted_scan(gen_path, meta):
    """mechanical scan for assumptions in the generated file"""
    found = []
    linemap = meta["linemap"]
    pat = re.compile(r"\b(assume\s*\(|admit\s*\(|external_body|assume_specification|external_type_specification|uninterp\s+spec|external_fn_specification|#\[verifier::external\])")
    with open(gen_path) as f:
        lines = f.read().split("\n")
    for i, ln in enumerate(lines):
        code = ln.split("//")[0]
        m = pat.search(code)
        if not m:
            continue
        info = linemap[i] if i < len(linemap) else None
        origin = "generated"
        if info:
            origin = info.get("file") or info.get("sidecar") or info.get("src") or "generated"
        # describe by the next non-attribute line
        j = i
        desc = ln.strip()
        while j + 1 < len(lines) and lines[j].strip().startswith("#["):
            j += 1
            desc = lines[j].strip()
        found.append({"kind": m.group(1).strip(" ("), "origin": origin, "text": desc[:160]})
    return found


# --------------------------------------------------------------------------------------
# property configuration
# --------------------------------------------------------------------------------------
def load_cfg():
    with open(os.path.join(CONTRACTS, "properties_cfg.json")) as f:
        return json.load(f)


def load_known_findings():
    p = os.path.join(VERIF, "known_findings.json")
    if not os.path.exists(p):
        return {"findings": [], "fixed": []}
    with open(p) as f:
        return json.load(f)


# --------------------------------------------------------------------------------------
def write_replay(pid, failures, extra=None):
    os.makedirs(REPLAYS, exist_ok=True)
    path = os.path.join(REPLAYS, f"{pid}-{int(time.time())}-{os.getpid()}.json")
    body = {"property": pid, "kind": "failed-obligation", "failed_obligations": [
        {"message": f["message"], "clauses": f["clauses"], "function": f["fn"], "where": f["where"],
         "verifier_output": f["rendered"]} for f in failures]}
    if extra:
        body.update(extra)
    with open(path, "w") as f:
        json.dump(body, f, indent=1)
    return path


def _prune(d, keep, pred=lambda f: True):
    """disk hygiene: keep only the newest `keep` entries of a scratch directory (never fails a check)"""
    try:
        fs = sorted((os.path.join(d, f) for f in os.listdir(d) if pred(f)), key=os.path.getmtime)
        for f in fs[:-keep] if keep else fs:
            if os.path.isdir(f):
                shutil.rmtree(f, ignore_errors=True)
            else:
                os.remove(f)
    except OSError:
        pass


def main(argv):
    _prune(os.path.join(BUILD, "cache"), 80, lambda f: f.endswith(".json"))
    _prune(REPLAYS, 400)
    _prune(BUILD, 0, lambda f: (f.startswith("run-") or f.startswith("replay-")) and time.time() - os.path.getmtime(os.path.join(BUILD, f)) > 6 * 3600)
    ap = argparse.ArgumentParser(prog="check")
    ap.add_argument("property")
    ap.add_argument("--tier", default=os.environ.get("VERIF_TIER", "quick"), choices=["quick", "thorough"])
    ap.add_argument("--replay")
    a = ap.parse_args(argv)
    pid = a.property
    seed = int(os.environ.get("VERIF_SEED", "0") or 0)
    cfg = load_cfg()
    if pid not in cfg["properties"]:
        print(f"unknown property {pid}", file=sys.stderr)
        return 2
    if a.replay:
        import replay
        return replay.replay(pid, a.replay)
    pcfg = cfg["properties"][pid]
    t0 = time.time()
    os.makedirs(BUILD, exist_ok=True)
    workdir = tempfile.mkdtemp(prefix=f"run-{pid}-", dir=BUILD)
    evidence = {"property_id": pid, "tier": a.tier, "seed": seed, "level": pcfg["level"], "coverage": {}, "assumptions": [],
                "wall_s": 0.0, "violations": 0}
    rc = 2
    try:
        rc = decide(pid, pcfg, cfg, a.tier, seed, workdir, evidence)
    except Undecided as e:
        log(f"UNDECIDED property={pid}: {e}")
        evidence["coverage"].setdefault("explanation", "")
        evidence["coverage"]["explanation"] = f"UNDECIDED: {e}"
        evidence["coverage"].setdefault("evaluations", 1)
        evidence["coverage"].setdefault("distinct_nontrivial", 0)
        rc = 2
    finally:
        evidence["wall_s"] = round(time.time() - t0, 2)
        os.makedirs(EVID, exist_ok=True)
        with open(os.path.join(EVID, f"{pid}.json"), "w") as f:
            json.dump(evidence, f, indent=1)
        shutil.rmtree(workdir, ignore_errors=True)
    return rc


def decide(pid, pcfg, cfg, tier, seed, workdir, evidence):
    cov = evidence["coverage"]
    # ---- extraction + main Verus run.  A function that the extractor or Verus cannot take (a construct
    # outside the supported subset) is left unverified (external_body, its contract assumed for its
    # callers) and decided by a bounded stand-in below; everything else is verified as usual.
    force = set()
    for attempt in range(4):
        gen, meta = run_extract(workdir, force)
        res = run_verus(gen)
        if res["json"] is None:
            raise Undecided("verus produced no result: " + res.get("stderr_tail", "")[-600:])
        failures, hard, undec = classify(res["diags"], meta)
        vr = res["json"].get("verification-results", {})
        if not (hard or vr.get("encountered-vir-error") or (vr.get("encountered-error") and not failures and not undec)):
            break
        culprits = hard_error_functions(res["diags"], meta)
        new = culprits - force
        if not new or attempt == 3:
            msg = (hard[0] if hard else "verus reported an error that is not a failed obligation")
            raise Undecided("verus rejected the extracted file (unsupported construct / type error), no verdict:\n" + msg[:1500])
        force |= new
    externalised = meta.get("externalised", [])
    fres = function_results(res["json"])
    lemmas = lemma_index()

    # ---- what belongs to this property
    my_clauses = [c for c in meta["clauses"] if pid in c["tags"]]
    dep_clauses = [c for c in meta["clauses"] if ("~" + pid) in c["tags"]]
    my_fns = [f for f in meta["functions"] if pid in f.get("props", []) or any(c["fn"] == f["item"] and c["src"] == f["src"] for c in my_clauses)]
    # functions that carry only clauses STRONGER than the property (dependency clauses): not obligations of the property,
    # but when such a function falls outside the verified subset the property is decided by the bounded sweep as well
    dep_fn_keys = set((c["src"], c["fn"]) for c in dep_clauses)
    my_lemmas = {n: l for n, l in lemmas.items() if pid in l["props"]}
    spec_fail = [f for f in failures if f["spec_only"]]
    if spec_fail:
        raise Undecided("a lemma / specification-only obligation failed (machinery, not the code): " + spec_fail[0]["message"] + " @ " + "; ".join(spec_fail[0]["where"]))
    lemma_fail = []
    for n in my_lemmas:
        hits = [k for k in fres if k.endswith("::lemmas::" + n)]
        if not hits:
            raise Undecided(f"lemma {n} not found in verus results")
        if not fres[hits[0]]["success"]:
            lemma_fail.append(n)
    if lemma_fail:
        raise Undecided("lemma(s) failed: " + ", ".join(lemma_fail))

    mine = [f for f in failures if pid in f["tags"]]
    deps = [f for f in failures if pid in f["dep_tags"] and pid not in f["tags"]]

    # ---- vacuity run
    vac = vacuity_check(gen, meta, my_fns)

    # ---- thorough tier: the same obligations under other solver seeds (proof stability)
    stability = None
    if tier == "thorough":
        stability = []
        for sd in (7, 99):
            r2 = run_verus(gen, extra=("--smt-option", f"smt.random_seed={sd}", "--smt-option", f"sat.random_seed={sd}"))
            f2, h2, u2 = classify(r2["diags"], meta) if r2["json"] else ([], ["no result"], [])
            stability.append({"seed": sd, "verified": (r2["json"] or {}).get("verification-results", {}).get("verified"),
                              "failed_obligations": len(f2), "resource_limits": len(u2), "wall_s": round(r2["wall_s"], 1)})
            if not failures and (f2 or u2 or h2):
                cov["stability"] = stability
                raise Undecided(f"proof instability: the obligations verify with the default seed but not with seed {sd}")
    # ---- Kani part
    kani_res = None
    if pcfg.get("kani"):
        import kani_runner
        kani_res = kani_runner.run(pid, pcfg, tier, seed, workdir)

    # ---- thorough tier: differential cross-check of the specification against the real code.
    # The proofs rest on ASSUMED contracts of std (prelude.rs); running the real code next to an
    # executable transcription of the specification over a structured input set guards those
    # assumptions (bounded, never counted as proof).  A disagreement is shown with its input.
    diff_res = None
    if tier == "thorough" and not failures and os.environ.get("VERIF_NO_FINDER") != "1":
        import finder
        diff_res = finder.search(pid, timeout=600)

    # ---- evidence
    # hard obligations of the property and the dependency clauses its lemmas rest on: all of them are discharged on a tree
    # that answers plain OK; a failed dependency clause alone never decides (see `deps` below)
    n_clause = len(my_clauses) + len(dep_clauses)
    n_fn = len(my_fns)
    n_lem = len(my_lemmas)
    failed_clause_ids = set(c for f in mine for c in f["clauses"]) | set(c for f in deps for c in f["clauses"])
    failed_fn_builtin = set(f["fn"] for f in mine if not f["clauses"])
    obligations = n_clause + n_fn + n_lem
    discharged = obligations - len(failed_clause_ids) - len(failed_fn_builtin)
    smt_ms = sum(v["time_ms"] for v in fres.values())
    trusted = trusted_scan(gen, meta)
    cov.update({
        "obligations": obligations,
        "discharged": discharged,
        "obligation_counting_rule": "contract clauses tagged with this property - hard obligations and dependency clauses (~) alike - "
                                    "+ functions whose built-in obligations (overflow, index, slice, callee preconditions, termination) count for this property + lemmas",
        "checker_cmd": "extract/extract.py --repo /repo --contracts contracts --out build/<run>/ppp_verus.rs --vacuity && " + res["cmd"],
        "back_end": f"Verus {verus_version()} / Z3 (bundled)",
        "verus_verified_total": vr.get("verified"),
        "verus_errors_total": vr.get("errors"),
        "verus_wall_s": round(res["wall_s"], 2),
        "verus_cache_hit": res.get("cache_hit", False),
        "smt_time_ms_all_functions": round(smt_ms, 1),
        "functions_under_contract": [
            {"fn": f["item"], "src": f["src"], "line": f["line"], "sha": f.get("sha"), "assumed": bool(f.get("external_body")),
             "smt_ms": next((round(v["time_ms"], 1) for k, v in fres.items() if fn_matches(k, f)), None)}
            for f in my_fns],
        "clauses": [{"id": c["id"], "kind": c["kind"], "text": c["text"]} for c in my_clauses],
        "stronger_clauses": [{"id": c["id"], "text": c["text"], "note": "dependency clause: the property's lemmas rest on it, but it says more than the property does; "
                              "if only such clauses fail the property is decided by the bounded property-level sweep"} for c in dep_clauses],
        "lemmas": sorted(my_lemmas),
        "samples": [c["text"] for c in my_clauses[:6]] + [f"lemma {n}" for n in sorted(my_lemmas)[:6]],
        "vacuity": vac,
        "extraction": {"tree_sha256": meta["tree_sha256"], "rewrites": meta["rewrites"],
                       "skipped_items": [s for s in meta["skipped"]]},
        "trusted_base": sorted(set(f"{t['kind']}: {t['text']} [{t['origin']}]" for t in trusted)),
        "explanation": pcfg.get("explanation", ""),
    })
    if kani_res:
        cov["kani"] = kani_res["evidence"]
    if stability is not None:
        cov["stability"] = stability
    if diff_res is not None:
        cov["differential_cross_check"] = {
            "method": "finder/: real code (current tree) vs executable transcription of the specification; BOUNDED cross-check of "
                      "the assumed std contracts, not part of the proof", "cases": diff_res.get("cases"), "mismatch": bool(diff_res.get("found"))}
    evidence["assumptions"] = cfg.get("global_assumptions", []) + pcfg.get("assumptions", [])

    # ---- verdict
    known = load_known_findings()
    for kf in known.get("findings", []):
        if kf["property"] == pid:
            log(f"KNOWN-FINDING: property={pid} {kf['what']}")
    if mine:
        # Verus gives no model: look for an input on which the real code shows the violation
        found = None
        if os.environ.get("VERIF_NO_FINDER") != "1":
            import finder
            found = finder.search(pid)
        extra = None
        if found and found.get("found"):
            extra = {"failing_input": {"case": found["case"], "expected": found["expected"], "actual": found["actual"],
                                       "how": "finder/: real code (current tree) vs executable transcription of the specification; "
                                              "re-run with bin/check " + pid + " --replay <this file>"}}
        path = write_replay(pid, mine, extra)
        evidence["violations"] = len(mine)
        for f in mine:
            log(f"failed obligation: {f['message']} :: {'; '.join(f['where'])}")
        if extra:
            log(f"failing input: {found['case'][:200]} expected: {found['expected'][:200]} actual: {found['actual'][:200]}")
            log(f"VIOLATION property={pid} replay={path}")
        else:
            log(f"VIOLATION property={pid} replay={path} no-failing-input-found")
        return 1
    if diff_res and diff_res.get("found"):
        path = write_replay(pid, [], {"failing_input": {"case": diff_res["case"], "expected": diff_res["expected"], "actual": diff_res["actual"],
                                                        "how": "thorough-tier differential cross-check (finder/): the obligations verify, yet the real code disagrees "
                                                               "with the executable transcription of the specification on this input - an assumed std contract "
                                                               "or the transcription is wrong, or the code is; re-run with bin/check " + pid + " --replay <this file>"}})
        evidence["violations"] = 1
        log(f"failing input: {diff_res['case'][:200]} expected: {diff_res['expected'][:200]} actual: {diff_res['actual'][:200]}")
        log(f"VIOLATION property={pid} replay={path}")
        return 1
    if kani_res and kani_res["violations"]:
        evidence["violations"] = len(kani_res["violations"])
        v = kani_res["violations"][0]
        log(f"VIOLATION property={pid} replay={v['replay']}" + ("" if v.get("input_found") else " no-failing-input-found"))
        return 1
    if kani_res and kani_res.get("undecided"):
        raise Undecided("kani: " + kani_res["undecided"])
    my_fn_keys = set((f["src"], f["item"]) for f in my_fns)
    undec_mine = [u for u in undec if u["fn"] is None or tuple(u["fn"]) in my_fn_keys]
    if undec_mine:
        raise Undecided("resource limit in " + str(undec_mine[0]["fn"]) + ": " + undec_mine[0]["message"])
    # ---- bounded stand-in for functions left outside the verified subset
    ext_mine = [x for x in externalised if (x["src"], x["item"]) in my_fn_keys or (x["src"], x["item"]) in dep_fn_keys]
    if ext_mine:
        import finder
        found = finder.search(pid)
        cov["bounded_stand_in"] = {
            "functions_not_verified": ext_mine,
            "method": "finder/: real code vs executable transcription of the specification over a structured input set (DESIGN.md section 3); "
                      "BOUNDED, not a proof: the contracts of these functions are assumed for their callers",
            "cases": (found or {}).get("cases"), "mismatch": bool(found and found.get("found"))}
        evidence["level"] = "other"
        cov["explanation"] = ("BOUNDED for " + ", ".join(x["item"] for x in ext_mine) + " (outside the verified subset in this tree); "
                              + cov.get("explanation", ""))
        if found is None:
            raise Undecided("functions outside the verified subset and the bounded stand-in could not be run: " + ext_mine[0]["item"])
        if found.get("found"):
            path = write_replay(pid, [], {"failing_input": {"case": found["case"], "expected": found["expected"], "actual": found["actual"],
                                                            "how": "bounded stand-in (finder/) for a function outside the verified subset"},
                                          "functions_not_verified": ext_mine})
            evidence["violations"] = 1
            log(f"failing input: {found['case'][:200]} expected: {found['expected'][:200]} actual: {found['actual'][:200]}")
            log(f"VIOLATION property={pid} replay={path}")
            return 1
    new_pub = [x for x in externalised if x.get("new_item") and x.get("public")]
    if pid == "C03" and new_pub:
        # C03 speaks about EVERY accessor / conversion on the parsed values: a new public function without a
        # contract is outside what was verified, and nothing exercises it - no verdict for it
        raise Undecided("new public function(s) without a contract, panic-freedom not decided for: " + ", ".join(x["item"] for x in new_pub))
    if deps:
        # the clause that failed is STRONGER than this property (it fixes, e.g., which error is reported when several
        # elements of a line are malformed - the property does not): the property is decided at its own strength by
        # the bounded sweep (real code vs the specification, only what the statement pins); never counted as proved
        import finder
        found = finder.search(pid)
        cov["bounded_stand_in"] = {
            "reason": "a clause stronger than the property failed: " + "; ".join(deps[0]["where"]),
            "method": "finder/: property-level sweep (DESIGN.md section 3); BOUNDED, not a proof",
            "cases": (found or {}).get("cases"), "mismatch": bool(found and found.get("found"))}
        evidence["level"] = "other"
        if found is None:
            raise Undecided("a clause stronger than this property failed and the property-level sweep could not be run: " + "; ".join(deps[0]["where"]))
        if found.get("found"):
            path = write_replay(pid, deps, {"failing_input": {"case": found["case"], "expected": found["expected"], "actual": found["actual"],
                                                              "how": "property-level sweep (finder/) after a clause stronger than the property failed"}})
            evidence["violations"] = 1
            for f in deps:
                log(f"failed obligation (stronger than the property): {f['message']} :: {'; '.join(f['where'])}")
            log(f"failing input: {found['case'][:200]} expected: {found['expected'][:200]} actual: {found['actual'][:200]}")
            log(f"VIOLATION property={pid} replay={path}")
            return 1
        dep_note = " BOUNDED (not proved): a clause stronger than this property no longer verifies (" + deps[0]["where"][-1][:120] + "); the property-level sweep of " + str(found.get("cases")) + " cases shows no violation"
    if not vac["ok"]:
        raise Undecided("vacuity guard: " + vac["problem"])
    if obligations == 0 and not kani_res:
        raise Undecided("no obligations generated for this property")
    note = locals().get("dep_note", "")
    if ext_mine:
        note += " BOUNDED (not proved) for " + ", ".join(x["item"] for x in ext_mine) + ": outside the verified subset in this tree, bounded stand-in passed"
    log(f"OK property={pid} obligations={obligations} discharged={discharged} verus_wall={res['wall_s']:.1f}s" + note)
    return 0


def fn_matches(verus_name, frec):
    # verus names look like crate::v2::model::Header::try_from ; match on the last path segment
    m = re.search(r"fn (\w+)$", frec["item"])
    last = m.group(1) if m else frec["item"].split()[-1]
    return verus_name.split("::")[-1] == last


def vacuity_check(gen, meta, my_fns):
    vpath = gen.replace(".rs", "_vacuity.rs")
    res = run_verus(vpath, multiple_errors=0)
    if res["json"] is None:
        return {"ok": False, "problem": "vacuity run produced no result"}
    with open(vpath + ".map.json") as f:
        vmeta = json.load(f)
    linemap = vmeta["linemap"]
    _f, hard, _u = classify(res["diags"], vmeta)
    if hard:
        return {"ok": False, "problem": "the vacuity file does not compile (machinery error): " + hard[0][:300]}
    failed_fns = set()
    for d in res["diags"]:
        if d.get("level") != "error":
            continue
        for sp in d.get("spans", []):
            for ln in range(sp["line_start"], sp["line_end"] + 1):
                info = linemap[ln - 1] if 0 < ln <= len(linemap) else None
                if info and "fn" in info and "src" in info:
                    failed_fns.add((info["src"], info["fn"]))
    expected = [(f["src"], f["item"]) for f in vmeta["functions"] if f.get("kind") == "fn" and not f.get("external_body")]
    vacuous = [f"{s}::{k}" for (s, k) in expected if (s, k) not in failed_fns]
    mine_expected = [(f["src"], f["item"]) for f in my_fns if f.get("kind") == "fn" and not f.get("external_body")]
    # lemmas: every proof fn of contracts/lemmas_*.rs must fail with `ensures false`
    fres = function_results(res["json"])
    lem = lemma_index()
    lem_vacuous = []
    for n in lem:
        hits = [k for k in fres if k.endswith("::lemmas::" + n)]
        if not hits or fres[hits[0]]["success"]:
            lem_vacuous.append("lemma " + n)
    vacuous += lem_vacuous
    return {"ok": not vacuous, "functions_checked": len(expected), "functions_refuted_false": len(expected) - len([v for v in vacuous if not v.startswith("lemma ")]),
            "lemmas_checked": len(lem), "lemmas_refuted_false": len(lem) - len(lem_vacuous),
            "of_this_property": len(mine_expected), "vacuous": vacuous,
            "problem": ("`ensures false` verified for: " + ", ".join(vacuous)) if vacuous else "",
            "wall_s": round(res["wall_s"], 2), "cache_hit": res.get("cache_hit", False)}
