"""Failing-input finder (see finder/src/main.rs): builds the finder against a scratch copy of the
current tree and searches for an input on which the real code disagrees with the executable
transcription of the specification.  Used only AFTER the verifier has reported a violation, to
show it against the real code; never to decide."""
import json
import os
import re
import shutil
import subprocess
import tempfile

import driver


def _tree_key():
    import hashlib
    h = hashlib.sha256()
    for base in (os.path.join(driver.REPO, "src"), os.path.join(driver.VERIF, "finder", "src")):
        for root, _d, files in sorted(os.walk(base)):
            for fn in sorted(files):
                pth = os.path.join(root, fn)
                h.update(os.path.relpath(pth, base).encode() + b"\0")
                with open(pth, "rb") as f:
                    h.update(f.read())
    for extra in (os.path.join(driver.REPO, "Cargo.toml"), os.path.join(driver.VERIF, "finder", "Cargo.toml")):
        with open(extra, "rb") as f:
            h.update(f.read())
    return h.hexdigest()[:20]


def _build(scratch):
    """the finder executable for the CURRENT tree (built in the scratch directory; the executable is kept in
    build/cache keyed by the hash of /repo/src + finder/src, so the twenty checks of one tree build it once)"""
    cdir = os.path.join(driver.BUILD, "cache")
    os.makedirs(cdir, exist_ok=True)
    cached = os.path.join(cdir, "finder-" + _tree_key())
    if os.environ.get("VERIF_NO_CACHE") != "1" and os.path.exists(cached):
        return cached
    exe = _build_fresh(scratch)
    if exe:
        try:
            tmp = cached + f".tmp{os.getpid()}"
            shutil.copy2(exe, tmp)
            os.replace(tmp, cached)
            old = sorted((f for f in os.listdir(cdir) if f.startswith("finder-") and ".tmp" not in f), key=lambda f: os.path.getmtime(os.path.join(cdir, f)))
            for f in old[:-24]:
                os.remove(os.path.join(cdir, f))
        except OSError:
            pass
    return exe


def _build_fresh(scratch):
    shutil.copytree(os.path.join(driver.VERIF, "finder"), os.path.join(scratch, "finder"), ignore=shutil.ignore_patterns("target"))
    os.makedirs(os.path.join(scratch, "repo"))
    shutil.copytree(os.path.join(driver.REPO, "src"), os.path.join(scratch, "repo", "src"))
    with open(os.path.join(driver.REPO, "Cargo.toml")) as f:
        toml = re.split(r"\n\[dev-dependencies\]", f.read())[0] + "\n"
    with open(os.path.join(scratch, "repo", "Cargo.toml"), "w") as f:
        f.write(toml)
    lock = os.path.join(driver.REPO, "Cargo.lock")
    if os.path.exists(lock):
        shutil.copy(lock, os.path.join(scratch, "finder", "Cargo.lock"))
    env = dict(os.environ, CARGO_NET_OFFLINE="true", CARGO_TARGET_DIR=os.path.join(scratch, "target"))
    p = subprocess.run(["cargo", "build", "--offline", "--release", "-q"], cwd=os.path.join(scratch, "finder"), env=env,
                       capture_output=True, text=True, timeout=600)
    if p.returncode != 0:
        return None
    return os.path.join(scratch, "target", "release", "ppp_finder")


def search(pid, case=None, timeout=180):
    """returns dict(found=bool, case=.., expected=.., actual=.., cases=N) or None when the finder could not be built/run"""
    scratch = tempfile.mkdtemp(prefix=f"ppp-finder-{pid}-")
    try:
        exe = _build(scratch)
        if not exe:
            return None
        cmd = [exe, pid] + (["--case", case] if case else [])
        p = subprocess.run(cmd, capture_output=True, text=True, timeout=timeout)
        line = [l for l in p.stdout.split("\n") if l.startswith("{")]
        if not line:
            return None
        return json.loads(line[-1])
    except Exception:
        return None
    finally:
        shutil.rmtree(scratch, ignore_errors=True)
