"""Runs the Kani harnesses registered for a property (contracts/properties_cfg.json: "kani").

The harness crate /verif/kani is copied, together with /repo's current src, into a scratch
directory outside /repo and /verif; every harness is run on its own (`cargo kani --harness X`),
several in parallel, each with a time limit.  A harness is either
  * complete : loop-free / full-domain, its success is a proof of the stated fact, or
  * bounded  : a stand-in with the stated bound, never counted as proved.
A FAILED harness is a violation (with Kani's concrete values when it prints them); a timeout,
crash or out-of-memory is undecided, never an alarm."""
import concurrent.futures
import json
import os
import re
import shutil
import subprocess
import tempfile
import time

import driver

CATALOG = os.path.join(driver.VERIF, "kani", "harnesses.json")


def _prepare(scratch, names=None):
    shutil.copytree(os.path.join(driver.VERIF, "kani"), os.path.join(scratch, "kani"))
    if names is not None:
        # `cargo kani` generates code for EVERY harness of the crate before it runs the selected one (25 minutes
        # for the whole catalog): in the scratch copy the harnesses that are not asked for lose their
        # #[kani::proof] attribute (they become dead code), nothing else is touched
        keep = set(names)
        srcdir = os.path.join(scratch, "kani", "src")
        for fn in os.listdir(srcdir):
            pth = os.path.join(srcdir, fn)
            with open(pth) as f:
                txt = f.read()
            def drop(m):
                return m.group(0) if m.group(2) in keep else "#[allow(dead_code)]\nfn " + m.group(2)
            txt = re.sub(r"(#\[kani::proof\]\s*(?:#\[kani::unwind\(\d+\)\]\s*)?)fn (\w+)", drop, txt)
            txt = re.sub(r"(?m)^be_check!\((\w+),[^;]*;\s*$", lambda m: m.group(0) if m.group(1) in keep else "", txt)
            with open(pth, "w") as f:
                f.write(txt)
    os.makedirs(os.path.join(scratch, "repo"))
    shutil.copytree(os.path.join(driver.REPO, "src"), os.path.join(scratch, "repo", "src"))
    with open(os.path.join(driver.REPO, "Cargo.toml")) as f:
        toml = f.read()
    # drop dev-dependencies and benches: they are not needed and not all are available offline for Kani
    toml = re.split(r"\n\[dev-dependencies\]", toml)[0] + "\n"
    with open(os.path.join(scratch, "repo", "Cargo.toml"), "w") as f:
        f.write(toml)
    lock = os.path.join(driver.REPO, "Cargo.lock")
    if os.path.exists(lock):
        shutil.copy(lock, os.path.join(scratch, "kani", "Cargo.lock"))


_QUAL = {}


def _qualified(name):
    """module::name of a harness (the module is the file of kani/src that defines it)"""
    if not _QUAL:
        srcdir = os.path.join(driver.VERIF, "kani", "src")
        for fn in os.listdir(srcdir):
            if fn == "lib.rs" or not fn.endswith(".rs"):
                continue
            with open(os.path.join(srcdir, fn)) as f:
                txt = f.read()
            for m in re.finditer(r"#\[kani::proof\]\s*(?:#\[kani::unwind\(\d+\)\]\s*)?fn (\w+)", txt):
                _QUAL[m.group(1)] = fn[:-3] + "::" + m.group(1)
            for m in re.finditer(r"(?m)^be_check!\((\w+),", txt):
                _QUAL[m.group(1)] = fn[:-3] + "::" + m.group(1)
    return _QUAL.get(name, name)


def _run_one(scratch, h, timeout):
    env = dict(os.environ, CARGO_NET_OFFLINE="true", CARGO_TARGET_DIR=os.path.join(scratch, "target"))
    # --exact: `--harness X` alone is a substring filter (std_splitn_model would also run ..._utf8 and ..._n7)
    cmd = ["cargo", "kani", "--harness", _qualified(h["name"]), "--exact", "--output-format", "terse"] + h.get("args", [])
    t0 = time.time()
    try:
        def _limits():
            import resource
            lim = int(os.environ.get("VERIF_KANI_MEM_GB", "16")) * (1 << 30)
            resource.setrlimit(resource.RLIMIT_AS, (lim, lim))
        p = subprocess.run(cmd, cwd=os.path.join(scratch, "kani"), env=env, capture_output=True, text=True, timeout=timeout, preexec_fn=_limits)
        out = p.stdout + p.stderr
        if "VERIFICATION:- SUCCESSFUL" in out:
            status = "success"
        elif "VERIFICATION:- FAILED" in out and "CBMC failed with status" not in out:
            status = "failed"
        else:
            status = "error"
    except subprocess.TimeoutExpired as e:
        out = (e.stdout or b"").decode("utf8", "replace") if isinstance(e.stdout, bytes) else (e.stdout or "")
        status = "timeout"
        subprocess.run(["pkill", "-f", "cbmc.*" + re.escape(h["name"])], capture_output=True)
    playback = None
    if status == "failed" and h.get("playback_input"):
        # Kani's concrete counterexample: re-run with concrete playback and read the symbolic input back
        try:
            p2 = subprocess.run(cmd + ["-Z", "concrete-playback", "--concrete-playback=print"], cwd=os.path.join(scratch, "kani"), env=env,
                                capture_output=True, text=True, timeout=timeout, preexec_fn=_limits)
            playback = _input_from_playback(p2.stdout + p2.stderr, h["playback_input"])
        except Exception:
            playback = None
    m = re.search(r"\*\* (\d+) of (\d+) failed", out)
    return {"name": h["name"], "status": status, "playback_input_hex": playback, "wall_s": round(time.time() - t0, 1), "kind": h["kind"],
            "bound": h.get("bound", ""), "checks": int(m.group(2)) if m else None,
            "failed_checks": int(m.group(1)) if m else None, "cmd": " ".join(cmd),
            "tail": out[-1500:] if status != "success" else ""}


def _input_from_playback(text, spec):
    """first concrete-playback test of the output -> the harness' symbolic input as hex.
    spec = {"bytes": N}: the harness draws `[u8; N]` and then a `usize` length n; the input is buf[..n]"""
    i = text.find("let concrete_vals")
    if i < 0:
        return None
    j = text.find("];", i)
    vecs = re.findall(r"vec!\[([0-9,\s]*)\]", text[i:j])
    vals = [[int(x) for x in v.replace(" ", "").split(",") if x] for v in vecs]
    vals = [v for v in vals if v]
    n = spec["bytes"]
    if len(vals) < n + 1 or any(len(v) != 1 for v in vals[:n]) or len(vals[n]) != 8:
        return None
    buf = bytes(v[0] for v in vals[:n])
    ln = int.from_bytes(bytes(vals[n]), "little")
    if ln > n:
        return None
    return buf[:ln].hex()


def run(pid, pcfg, tier, seed, workdir):
    with open(CATALOG) as f:
        catalog = {h["name"]: h for h in json.load(f)["harnesses"]}
    names = list(pcfg["kani"].get("quick", []))
    if tier == "thorough":
        names += [n for n in pcfg["kani"].get("thorough", []) if n not in names]
    if not names:
        return None
    scratch = tempfile.mkdtemp(prefix=f"ppp-kani-{pid}-")
    results = []
    try:
        _prepare(scratch, names)
        # build once so that the parallel runs do not all compile
        first = catalog[names[0]]
        results.append(_run_one(scratch, first, first.get("timeout_s", 900)))
        with concurrent.futures.ThreadPoolExecutor(max_workers=int(os.environ.get("VERIF_KANI_JOBS", "6"))) as ex:
            futs = [ex.submit(_run_one, scratch, catalog[n], catalog[n].get("timeout_s", 900)) for n in names[1:]]
            for fu in futs:
                results.append(fu.result())
    finally:
        shutil.rmtree(scratch, ignore_errors=True)
    violations = []
    undecided = None
    for r in results:
        if r["status"] == "failed":
            os.makedirs(driver.REPLAYS, exist_ok=True)
            path = os.path.join(driver.REPLAYS, f"{pid}-kani-{r['name']}-{int(time.time())}.json")
            rec = {"property": pid, "kind": "kani", "harness": r["name"], "cmd": r["cmd"], "output_tail": r["tail"]}
            found = False
            if r.get("playback_input_hex") is not None:
                # the verifier's own counterexample, replayed natively on the real code next to the specification
                import finder
                fr = finder.search(pid, case=r["playback_input_hex"])
                rec["kani_counterexample_input"] = r["playback_input_hex"]
                if fr and fr.get("found"):
                    rec["kind"] = "failed-obligation"
                    rec["failing_input"] = {"case": fr["case"], "expected": fr["expected"], "actual": fr["actual"],
                                            "how": "Kani's concrete counterexample for harness " + r["name"] + ", replayed on the real code (finder/)"}
                    rec["failed_obligations"] = []
                    found = True
                    driver.log(f"failing input (Kani counterexample): {fr['case'][:200]} expected: {fr['expected'][:200]} actual: {fr['actual'][:200]}")
            with open(path, "w") as f:
                json.dump(rec, f, indent=1)
            violations.append({"replay": path, "input_found": found, "harness": r["name"]})
        elif r["status"] in ("timeout", "error"):
            undecided = f"harness {r['name']}: {r['status']} after {r['wall_s']}s"
    ev = {"harnesses": [{k: v for k, v in r.items() if k != "tail"} for r in results],
          "complete_proved": [r["name"] for r in results if r["status"] == "success" and r["kind"] == "complete"],
          "bounded_passed": [r["name"] + " (bounded: " + r["bound"] + ")" for r in results if r["status"] == "success" and r["kind"] == "bounded"],
          "back_end": "Kani 0.68 / CBMC 6.11"}
    return {"evidence": ev, "violations": violations, "undecided": undecided}


def replay(pid, rec):
    with open(CATALOG) as f:
        catalog = {h["name"]: h for h in json.load(f)["harnesses"]}
    h = catalog.get(rec["harness"])
    if not h:
        print("unknown harness " + rec["harness"])
        return 2
    scratch = tempfile.mkdtemp(prefix=f"ppp-kani-replay-")
    try:
        _prepare(scratch, [h["name"]])
        r = _run_one(scratch, h, h.get("timeout_s", 900))
    finally:
        shutil.rmtree(scratch, ignore_errors=True)
    if r["status"] == "failed":
        print(r["tail"][-800:])
        print(f"VIOLATION property={pid} replay=(harness {h['name']}) no-failing-input-found")
        return 1
    if r["status"] == "success":
        print(f"OK property={pid}: harness {h['name']} passes on the current tree")
        return 0
    print(f"UNDECIDED: harness {h['name']}: {r['status']}")
    return 2
