"""check <Cxx> --replay <file>: re-examine a recorded violation against /repo's current tree.

A replay file written by a failed Verus obligation carries no input (Verus gives no model):
replaying it re-extracts the current tree, re-runs the verifier and reports whether the same
obligation (clause id / function) still fails.  A replay file written by a Kani harness carries
the concrete input and the harness name: the harness is re-run."""
import json
import os
import shutil
import sys
import tempfile

import driver


def replay(pid, path):
    with open(path) as f:
        rec = json.load(f)
    if rec.get("kind") == "kani":
        import kani_runner
        return kani_runner.replay(pid, rec)
    os.makedirs(driver.BUILD, exist_ok=True)
    workdir = tempfile.mkdtemp(prefix=f"replay-{pid}-", dir=driver.BUILD)
    try:
        gen, meta = driver.run_extract(workdir)
        res = driver.run_verus(gen)
        failures, hard, undec = driver.classify(res["diags"], meta)
        want_clauses = set(c for o in rec.get("failed_obligations", []) for c in o.get("clauses", []))
        want_fns = set(o.get("function") for o in rec.get("failed_obligations", []) if not o.get("clauses"))
        still = [f for f in failures if (set(f["clauses"]) & want_clauses) or (not f["clauses"] and f["fn"] in want_fns)]
        if hard:
            print("UNDECIDED: the current tree is not accepted by the verifier: " + hard[0][:300])
            return 2
        if still:
            for f in still:
                print("still failing: " + f["message"] + " :: " + "; ".join(f["where"]))
            print(f"VIOLATION property={pid} replay={path} no-failing-input-found")
            return 1
        print(f"OK property={pid}: the recorded obligations are discharged on the current tree")
        return 0
    except driver.Undecided as e:
        print(f"UNDECIDED: {e}")
        return 2
    finally:
        shutil.rmtree(workdir, ignore_errors=True)
