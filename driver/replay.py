"""check <Cxx> --replay <file>: re-examine a recorded violation against /repo's current tree.

A replay file written by a failed Verus obligation carries no input (Verus gives no model):
replaying it re-extracts the current tree, re-runs the verifier and reports whether the same
obligation (clause id / function) still fails.  A replay file written by a Kani harness carries
the concrete input and the harness name: the harness is re-run."""
import json
import os
import shutil
import sys
import tempfile

import driver


def replay(pid, path):
    with open(path) as f:
        rec = json.load(f)
    if rec.get("kind") == "kani":
        import kani_runner
        return kani_runner.replay(pid, rec)
    fi = rec.get("failing_input")
    if fi:
        import finder
        case = fi["case"]
        hexcase = case if all(c in "0123456789abcdef" for c in case) and len(case) % 2 == 0 else None
        r = finder.search(pid, case=hexcase)
        if r is None:
            print("UNDECIDED: the finder could not be built or run on the current tree")
        elif r.get("found"):
            print(f"failing input reproduced on the current tree: {r['case'][:300]}")
            print(f"  expected: {r['expected'][:300]}")
            print(f"  actual:   {r['actual'][:300]}")
            print(f"VIOLATION property={pid} replay={path}")
            return 1
        else:
            print("the recorded input no longer fails on the current tree; re-checking the obligations")
    os.makedirs(driver.BUILD, exist_ok=True)
    workdir = tempfile.mkdtemp(prefix=f"replay-{pid}-", dir=driver.BUILD)
    try:
        gen, meta = driver.run_extract(workdir)
        res = driver.run_verus(gen)
        failures, hard, undec = driver.classify(res["diags"], meta)
        want_clauses = set(c for o in rec.get("failed_obligations", []) for c in o.get("clauses", []))
        want_fns = set(o.get("function") for o in rec.get("failed_obligations", []) if not o.get("clauses"))
        still = [f for f in failures if (set(f["clauses"]) & want_clauses) or (not f["clauses"] and f["fn"] in want_fns)]
        if hard:
            print("UNDECIDED: the current tree is not accepted by the verifier: " + hard[0][:300])
            return 2
        if still:
            for f in still:
                print("still failing: " + f["message"] + " :: " + "; ".join(f["where"]))
            print(f"VIOLATION property={pid} replay={path} no-failing-input-found")
            return 1
        print(f"OK property={pid}: the recorded obligations are discharged on the current tree")
        return 0
    except driver.Undecided as e:
        print(f"UNDECIDED: {e}")
        return 2
    finally:
        shutil.rmtree(workdir, ignore_errors=True)
