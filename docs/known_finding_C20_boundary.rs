// demonstration of the known finding C20 (DESIGN.md section 10): a multi-piece value is written partially and then refused
use ppp::v2::{TypeLengthValue, WriteToHeader, Writer, Addresses, IPv4};
#[test]
fn tlv_partially_written_then_refused() {
    for (start, grown) in [(65549usize, 3usize), (65550, 3), (65551, 1)] {
        let mut w = Writer::from(vec![0u8; start]);
        let r = TypeLengthValue::new(1u8, &[1u8, 2, 3][..]).write_to(&mut w);
        let len = w.finish().len();
        assert!(r.is_err(), "start {}", start);
        assert_eq!(len - start, grown, "start {}", start);
    }
    let mut w = Writer::from(vec![0u8; 65548]);
    let a: Addresses = IPv4::new([1, 2, 3, 4], [5, 6, 7, 8], 1, 2).into();
    assert!(a.write_to(&mut w).is_err());
    assert_eq!(w.finish().len(), 65548 + 4);
    // a single-piece value succeeds in the same state
    let mut w = Writer::from(vec![0u8; 65551]);
    assert_eq!([9u8; 100][..].write_to(&mut w).unwrap(), 100);
}
