use std::net::{Ipv4Addr, Ipv6Addr, SocketAddrV4, SocketAddrV6};

// ---- prelude: u16_from_be_bytes / u16_to_be_bytes (complete: loop-free, full domain) ----------
#[kani::proof]
fn std_u16_be_bytes() {
    let a: u8 = kani::any();
    let b: u8 = kani::any();
    let x = u16::from_be_bytes([a, b]);
    assert!(x as u32 == (a as u32) * 256 + (b as u32));
    let y: u16 = kani::any();
    let r = y.to_be_bytes();
    assert!(r[0] as u16 == y / 256 && r[1] as u16 == y % 256);
}

/// be_int(x, n)[i] == (x mod 256^n) / 256^(n-1-i) % 256, for the twelve integer types
macro_rules! be_check {
    ($name:ident, $t:ty, $u:ty, $w:expr) => {
        #[kani::proof]
        fn $name() {
            let x: $t = kani::any();
            let r = x.to_be_bytes();
            let v = x as $u; // two's complement value modulo 2^(8w)
            let i: usize = kani::any();
            kani::assume(i < $w);
            let shift = 8 * ($w - 1 - i) as u32;
            assert!(r[i] == ((v >> shift) & 0xff) as u8);
            assert!(r.len() == $w);
        }
    };
}
be_check!(std_be_u8, u8, u8, 1);
be_check!(std_be_u32, u32, u32, 4);
be_check!(std_be_u64, u64, u64, 8);
be_check!(std_be_u128, u128, u128, 16);
be_check!(std_be_usize, usize, u64, 8);
be_check!(std_be_i8, i8, u8, 1);
be_check!(std_be_i16, i16, u16, 2);
be_check!(std_be_i32, i32, u32, 4);
be_check!(std_be_i64, i64, u64, 8);
be_check!(std_be_i128, i128, u128, 16);
be_check!(std_be_isize, isize, u64, 8);

// ---- prelude: Ipv4Addr::new / octets, Ipv6Addr::from / octets, extensionality (complete) --------
#[kani::proof]
fn std_ip_octets() {
    let o: [u8; 4] = kani::any();
    let a = Ipv4Addr::new(o[0], o[1], o[2], o[3]);
    assert!(a.octets() == o);
    let p: [u8; 4] = kani::any();
    let b = Ipv4Addr::new(p[0], p[1], p[2], p[3]);
    assert!((a == b) == (o == p));
    let o6: [u8; 16] = kani::any();
    let a6 = Ipv6Addr::from(o6);
    assert!(a6.octets() == o6);
    let p6: [u8; 16] = kani::any();
    assert!((a6 == Ipv6Addr::from(p6)) == (o6 == p6));
}

// ---- prelude: SocketAddrV4/V6 ip() / port() (complete) --------------------------------------------
#[kani::proof]
fn std_socket_addr() {
    let o: [u8; 4] = kani::any();
    let port: u16 = kani::any();
    let s4 = SocketAddrV4::new(Ipv4Addr::from(o), port);
    assert!(s4.ip().octets() == o && s4.port() == port);
    let o6: [u8; 16] = kani::any();
    let s6 = SocketAddrV6::new(Ipv6Addr::from(o6), port, kani::any(), kani::any());
    assert!(s6.ip().octets() == o6 && s6.port() == port);
}

// ---- prelude: usize_min, truncating cast, Option<T>: From<T> (complete) ---------------------------
#[kani::proof]
fn std_small_facts() {
    let a: usize = kani::any();
    let b: usize = kani::any();
    let m = std::cmp::min(a, b);
    assert!(m == if a <= b { a } else { b });
    assert!((a as u16) as usize == a % 65536);
    let x: u16 = kani::any();
    let o: Option<u16> = x.into();
    assert!(o == Some(x));
    let y: u8 = kani::any();
    let z: u8 = y.into();
    assert!(z == y);
}

// ---- prelude R10: v[a..b].copy_from_slice(src) (bounded: vectors of at most 6 bytes) ----------------
#[kani::proof]
#[kani::unwind(8)]
fn std_vec_copy_range() {
    let len: usize = kani::any();
    kani::assume(len <= 6);
    let mut v: Vec<u8> = Vec::new();
    for _ in 0..len {
        v.push(kani::any());
    }
    let old = v.clone();
    let a: usize = kani::any();
    let b: usize = kani::any();
    kani::assume(a <= b && b <= len && b - a == 2);
    let src: [u8; 2] = kani::any();
    v[a..b].copy_from_slice(&src);
    assert!(v.len() == old.len());
    let i: usize = kani::any();
    kani::assume(i < len);
    if i < a || i >= b {
        assert!(v[i] == old[i]);
    } else {
        assert!(v[i] == src[i - a]);
    }
}

// ---- prelude R4: Write::write_all on ppp's Writer (bounded: buffers of at most 3 bytes) ------------
#[kani::proof]
#[kani::unwind(6)]
fn std_write_all_on_writer() {
    use ppp::v2::Writer;
    use std::io::Write;
    let n: usize = kani::any();
    kani::assume(n <= 3);
    let data: [u8; 3] = kani::any();
    // below the limit: everything is appended by a single write
    let pre: u8 = kani::any();
    let mut w = Writer::from(vec![pre]);
    let r = w.write_all(&data[..n]);
    assert!(r.is_ok());
    let out = w.finish();
    assert!(out.len() == 1 + n && out[0] == pre);
    if n > 0 {
        assert!(out[1] == data[0]);
    }
}


// ---- prelude R13: the split model (bounded: strings of at most SPLIT_N bytes over {' ', '\r', 'a', '\n'}) --
const SPLIT_N: usize = 4;

/// executable copy of `splitn_spec` (contracts/spec_v1.rs): piece boundaries (start, end)
fn splitn_model(s: &[u8], n: usize, out: &mut [(usize, usize); 8]) -> usize {
    let mut count = 0;
    let mut start = 0;
    let mut left = n;
    while left > 0 {
        if left == 1 {
            out[count] = (start, s.len());
            return count + 1;
        }
        // first separator at or after start
        let mut i = start;
        while i < s.len() && !(s[i] == b' ' || s[i] == b'\r') {
            i += 1;
        }
        if i >= s.len() {
            out[count] = (start, s.len());
            return count + 1;
        }
        out[count] = (start, i);
        count += 1;
        start = i + 1;
        left -= 1;
    }
    count
}

#[kani::proof]
#[kani::unwind(8)]
fn std_splitn_model() {
    let len: usize = kani::any();
    kani::assume(len <= SPLIT_N);
    let mut buf = [b'a'; SPLIT_N];
    let mut i = 0;
    while i < SPLIT_N {
        let k: u8 = kani::any();
        kani::assume(k < 4);
        buf[i] = [b' ', b'\r', b'a', b'\n'][k as usize];
        i += 1;
    }
    let s = std::str::from_utf8(&buf[..len]).unwrap();
    let n: usize = kani::any();
    kani::assume(n >= 1 && n <= 3);
    let mut model = [(0usize, 0usize); 8];
    let m = splitn_model(s.as_bytes(), n, &mut model);
    let mut it = s.splitn(n, |c| c == ' ' || c == '\r').peekable();
    let mut k = 0;
    while k < 4 {
        let peeked_none = it.peek().is_none();
        match it.next() {
            None => {
                assert!(peeked_none);
                assert!(k == m);
                break;
            }
            Some(piece) => {
                assert!(!peeked_none);
                assert!(k < m);
                let (a, b) = model[k];
                assert!(piece.as_bytes() == &s.as_bytes()[a..b]);
            }
        }
        k += 1;
    }
}

// ---- prelude: u16::from_str (bounded: strings of at most 3 bytes over {'+','-','0','1','6',' '}) ---------
#[kani::proof]
#[kani::unwind(6)]
fn std_u16_parse_model() {
    let len: usize = kani::any();
    kani::assume(len <= 3);
    let mut buf = [b'0'; 3];
    let mut i = 0;
    while i < 3 {
        let k: u8 = kani::any();
        kani::assume(k < 6);
        buf[i] = [b'+', b'-', b'0', b'1', b'6', b' '][k as usize];
        i += 1;
    }
    let s = std::str::from_utf8(&buf[..len]).unwrap();
    // model: optional '+', then >= 1 digits, value <= 65535
    let b = s.as_bytes();
    let d = if !b.is_empty() && b[0] == b'+' { &b[1..] } else { b };
    let mut ok = !d.is_empty();
    let mut v: u32 = 0;
    let mut j = 0;
    while j < 3 {
        if j < d.len() {
            if d[j].is_ascii_digit() { v = v * 10 + (d[j] - b'0') as u32; } else { ok = false; }
        }
        j += 1;
    }
    match s.parse::<u16>() {
        Ok(x) => assert!(ok && x as u32 == v),
        Err(_) => assert!(!ok || v > 65535),
    }
}

// ---- prelude: str pattern functions at byte level (bounded: haystack of at most 4 bytes over
//      {' ', '\r', '0', '+', 'a'}, needle of at most 2 bytes) ---------------------------------------------
fn sym_str<'a>(buf: &'a mut [u8; 4], max: usize) -> &'a str {
    let len: usize = kani::any();
    kani::assume(len <= max);
    let mut i = 0;
    while i < 4 {
        let k: u8 = kani::any();
        kani::assume(k < 5);
        buf[i] = [b' ', b'\r', b'0', b'+', b'a'][k as usize];
        i += 1;
    }
    std::str::from_utf8(&buf[..len]).unwrap()
}

#[kani::proof]
#[kani::unwind(8)]
fn std_str_patterns() {
    let mut b1 = [0u8; 4];
    let mut b2 = [0u8; 4];
    let s = sym_str(&mut b1, 4);
    let p = sym_str(&mut b2, 2);
    let (sb, pb) = (s.as_bytes(), p.as_bytes());
    // axiom_pat_starts_str / axiom_pat_ends_str
    let pre = pb.len() <= sb.len() && &sb[..pb.len()] == pb;
    let suf = pb.len() <= sb.len() && &sb[sb.len() - pb.len()..] == pb;
    assert!(s.starts_with(p) == pre);
    assert!(s.ends_with(p) == suf);
    // axiom_pat_starts_char / axiom_pat_find_char for the ASCII chars ppp uses
    assert!(s.starts_with(' ') == (!sb.is_empty() && sb[0] == b' '));
    let mut first = sb.len();
    let mut i = sb.len();
    while i > 0 {
        i -= 1;
        if sb[i] == b'\r' { first = i; }
    }
    assert!(s.find('\r') == if first < sb.len() { Some(first) } else { None });
    // equality and emptiness are byte-wise
    assert!((s == p) == (sb == pb));
    assert!(s.is_empty() == sb.is_empty() && s.len() == sb.len());
}

// ---- prelude: Option::filter, Cow deref / as_ref / From<&[T]>, <[T]>::to_vec (complete for the
//      scalar facts; the slice facts on a 3-byte array) -----------------------------------------------
#[kani::proof]
#[kani::unwind(6)]
fn std_option_cow_facts() {
    use std::borrow::Cow;
    let o: Option<u8> = kani::any();
    let k: u8 = kani::any();
    let r = o.filter(|v| *v == k);
    match o {
        None => assert!(r.is_none()),
        Some(x) => assert!(r == if x == k { Some(x) } else { None }),
    }
    let a: [u8; 3] = kani::any();
    let c: Cow<'_, [u8]> = Cow::from(&a[..]);
    assert!(matches!(c, Cow::Borrowed(_)));
    let d: &[u8] = &c;
    let e: &[u8] = c.as_ref();
    assert!(d == &a[..] && e == &a[..]);
    let v = a[..].to_vec();
    assert!(v.len() == 3 && v[0] == a[0] && v[1] == a[1] && v[2] == a[2]);
    let owned: Cow<'_, [u8]> = Cow::Owned(v);
    let f: &[u8] = owned.as_ref();
    assert!(f == &a[..]);
    let s: Cow<'_, str> = Cow::Borrowed("PROXY");
    let t: &str = s.as_ref();
    let u: &str = &s;
    assert!(t.as_bytes() == b"PROXY" && u.as_bytes() == b"PROXY");
}

// ---- prelude R15: s.iter().position(f) (bounded: slices of at most 4 bytes) ------------------------
#[kani::proof]
#[kani::unwind(7)]
fn std_slice_position() {
    let a: [u8; 4] = kani::any();
    let len: usize = kani::any();
    kani::assume(len <= 4);
    let s = &a[..len];
    let k: u8 = kani::any();
    let r = s.iter().position(|&c| c == k);
    match r {
        Some(i) => {
            assert!(i < len && s[i] == k);
            let j: usize = kani::any();
            kani::assume(j < i);
            assert!(s[j] != k);
        }
        None => {
            let j: usize = kani::any();
            kani::assume(j < len);
            assert!(s[j] != k);
        }
    }
}

// ---- prelude: str slicing wrappers and the boundary notion (bounded: strings of at most 3 units
//      over {"a", "\r", " ", U+00E9 (2 bytes), U+20AC (3 bytes)}) ----------------------------------------
/// fills `buf` with up to `max` units and returns the length in bytes
fn sym_units(buf: &mut [u8; 9], max: usize) -> usize {
    let units: usize = kani::any();
    kani::assume(units <= max);
    let mut len = 0;
    let mut u = 0;
    while u < 3 {
        if u < units {
            let k: u8 = kani::any();
            kani::assume(k < 5);
            match k {
                0 => { buf[len] = b'a'; len += 1; }
                1 => { buf[len] = b'\r'; len += 1; }
                2 => { buf[len] = b' '; len += 1; }
                3 => { buf[len] = 0xC3; buf[len + 1] = 0xA9; len += 2; }
                _ => { buf[len] = 0xE2; buf[len + 1] = 0x82; buf[len + 2] = 0xAC; len += 3; }
            }
        }
        u += 1;
    }
    len
}

#[kani::proof]
#[kani::unwind(12)]
fn std_str_slicing_utf8() {
    let mut buf = [0u8; 9];
    let len = sym_units(&mut buf, 3);
    let bytes = &buf[..len];
    // from_utf8 accepts it and denotes the same bytes
    let s = match std::str::from_utf8(bytes) { Ok(s) => s, Err(_) => { assert!(false); return; } };
    assert!(s.as_bytes() == bytes);
    let b: usize = kani::any();
    kani::assume(b <= len + 1);
    // vstd: is_char_boundary(bytes, b) <==> b == len or bytes[b] is not a continuation byte (0x80..=0xBF)
    let boundary = b <= len && (b == len || !(0x80..=0xBF).contains(&bytes[b]));
    assert!(s.is_char_boundary(b) == boundary);
    // str_get_to / str_slice_to / str_slice_from / str_slice
    match s.get(..b) {
        Some(t) => { assert!(boundary); assert!(t.as_bytes() == &bytes[..b]); }
        None => assert!(!boundary),
    }
    if boundary {
        assert!(s[..b].as_bytes() == &bytes[..b]);
        assert!(s[b..].as_bytes() == &bytes[b..]);
        let a: usize = kani::any();
        kani::assume(a <= b && s.is_char_boundary(a));
        assert!(s[a..b].as_bytes() == &bytes[a..b]);
    }
    // an ASCII byte starts and ends a character
    let i: usize = kani::any();
    kani::assume(i < len);
    if bytes[i] < 128 {
        assert!(s.is_char_boundary(i) && s.is_char_boundary(i + 1));
    }
}

// ---- prelude R13: the split model on non-ASCII text (bounded: at most 3 units over the alphabet above, n in 1..3)
#[kani::proof]
#[kani::unwind(12)]
fn std_splitn_model_utf8() {
    let mut buf = [0u8; 9];
    let len = sym_units(&mut buf, 3);
    let s = match std::str::from_utf8(&buf[..len]) { Ok(s) => s, Err(_) => { assert!(false); return; } };
    let n: usize = kani::any();
    kani::assume(n >= 1 && n <= 3);
    let mut model = [(0usize, 0usize); 8];
    let m = splitn_model(s.as_bytes(), n, &mut model);
    let mut it = s.splitn(n, |c| c == ' ' || c == '\r').peekable();
    let mut k = 0;
    while k < 4 {
        let peeked_none = it.peek().is_none();
        match it.next() {
            None => {
                assert!(peeked_none);
                assert!(k == m);
                break;
            }
            Some(piece) => {
                assert!(!peeked_none);
                assert!(k < m);
                let (a, b) = model[k];
                assert!(piece.as_bytes() == &s.as_bytes()[a..b]);
            }
        }
        k += 1;
    }
}

// ---- prelude R13: the split model at the arity ppp uses (bounded: n = 7, strings of at most 8 bytes
//      over {' ', '\r', 'a'}: every shape from no separator to eight separators) ---------------------------
const SPLIT7_N: usize = 8;
fn splitn_model16(s: &[u8], n: usize, out: &mut [(usize, usize); 16]) -> usize {
    let mut count = 0;
    let mut start = 0;
    let mut left = n;
    while left > 0 {
        if left == 1 {
            out[count] = (start, s.len());
            return count + 1;
        }
        let mut i = start;
        while i < s.len() && !(s[i] == b' ' || s[i] == b'\r') {
            i += 1;
        }
        if i >= s.len() {
            out[count] = (start, s.len());
            return count + 1;
        }
        out[count] = (start, i);
        count += 1;
        start = i + 1;
        left -= 1;
    }
    count
}

#[kani::proof]
#[kani::unwind(12)]
fn std_splitn_model_n7() {
    let len: usize = kani::any();
    kani::assume(len <= SPLIT7_N);
    let mut buf = [b'a'; SPLIT7_N];
    let mut i = 0;
    while i < SPLIT7_N {
        let k: u8 = kani::any();
        kani::assume(k < 3);
        buf[i] = [b' ', b'\r', b'a'][k as usize];
        i += 1;
    }
    let s = std::str::from_utf8(&buf[..len]).unwrap();
    let mut model = [(0usize, 0usize); 16];
    let m = splitn_model16(s.as_bytes(), 7, &mut model);
    let mut it = s.splitn(7, |c| c == ' ' || c == '\r').peekable();
    let mut k = 0;
    while k < 8 {
        let peeked_none = it.peek().is_none();
        match it.next() {
            None => {
                assert!(peeked_none);
                assert!(k == m);
                break;
            }
            Some(piece) => {
                assert!(!peeked_none);
                assert!(k < m);
                let (a, b) = model[k];
                assert!(piece.as_bytes() == &s.as_bytes()[a..b]);
            }
        }
        k += 1;
    }
    assert!(m <= 7);
}

// ---- prelude: std's IPv4 text parser accepts only digits and '.' (axiom_ipv4_text_no_sep) -----------
//      (bounded: strings of exactly 7 bytes over {'1', '0', '.', ' ', '\r', '+', 'a', ':'}: the shortest
//      texts that can be accepted at all, with every separator / sign / letter in every position)
#[kani::proof]
#[kani::unwind(10)]
fn std_ipv4_text_alphabet() {
    let mut buf = [b'1'; 7];
    let mut i = 0;
    while i < 7 {
        let k: u8 = kani::any();
        kani::assume(k < 8);
        buf[i] = [b'1', b'0', b'.', b' ', b'\r', b'+', b'a', b':'][k as usize];
        i += 1;
    }
    let s = std::str::from_utf8(&buf[..]).unwrap();
    if let Ok(a) = s.parse::<Ipv4Addr>() {
        kani::cover!(true, "some 7-byte text is accepted");
        let mut j = 0;
        while j < 7 {
            assert!(buf[j] == b'.' || buf[j].is_ascii_digit());
            j += 1;
        }
        // dotted quad of single digits: the only accepted shape at this length
        assert!(buf[1] == b'.' && buf[3] == b'.' && buf[5] == b'.');
        assert!(a.octets() == [buf[0] - b'0', buf[2] - b'0', buf[4] - b'0', buf[6] - b'0']);
    }
}

// ---- prelude: std's IPv6 text parser accepts only hex digits, ':' and '.' (axiom_ipv6_text_no_sep) ---
//      (bounded: strings of at most 5 bytes over {'1', 'a', 'F', ':', '.', ' ', '\r', '+', 'g', '%'})
#[kani::proof]
#[kani::unwind(12)]
fn std_ipv6_text_alphabet() {
    let len: usize = kani::any();
    kani::assume(len <= 5);
    let mut buf = [b':'; 5];
    let mut i = 0;
    while i < 5 {
        let k: u8 = kani::any();
        kani::assume(k < 10);
        buf[i] = [b'1', b'a', b'F', b':', b'.', b' ', b'\r', b'+', b'g', b'%'][k as usize];
        i += 1;
    }
    let s = std::str::from_utf8(&buf[..len]).unwrap();
    if s.parse::<Ipv6Addr>().is_ok() {
        kani::cover!(true, "some short text is accepted");
        let mut j = 0;
        while j < 5 {
            if j < len {
                assert!(buf[j] == b':' || buf[j] == b'.' || buf[j].is_ascii_hexdigit());
            }
            j += 1;
        }
    }
}

// ---- prelude: u16::from_str at the 16-bit boundary (bounded: digit strings of at most 6 bytes over
//      {'0','3','5','6','9'}: 65535 / 65536 / 99999 / 000000 / 655350 ...) ---------------------------------
#[kani::proof]
#[kani::unwind(9)]
fn std_u16_parse_overflow() {
    let len: usize = kani::any();
    kani::assume(len >= 1 && len <= 6);
    let mut buf = [b'0'; 6];
    let mut i = 0;
    while i < 6 {
        let k: u8 = kani::any();
        kani::assume(k < 5);
        buf[i] = [b'0', b'3', b'5', b'6', b'9'][k as usize];
        i += 1;
    }
    let s = std::str::from_utf8(&buf[..len]).unwrap();
    let mut v: u64 = 0;
    let mut j = 0;
    while j < 6 {
        if j < len { v = v * 10 + (buf[j] - b'0') as u64; }
        j += 1;
    }
    match s.parse::<u16>() {
        Ok(x) => assert!(v <= 65535 && x as u64 == v),
        Err(_) => assert!(v > 65535),
    }
}

// ---- prelude: std::str::from_utf8 / Utf8Error (valid_up_to, error_len) as assumed for the byte entry point of the
// v1 parser (utf8_valid_up_to, utf8_truncated).  Bounded: every byte string of at most 4 bytes (all values symbolic).
#[kani::proof]
#[kani::unwind(8)]
fn std_from_utf8_error_model() {
    let buf: [u8; 4] = kani::any();
    let len: usize = kani::any();
    kani::assume(len <= 4);
    let b = &buf[..len];
    match std::str::from_utf8(b) {
        Ok(s) => assert!(s.as_bytes() == b),
        Err(e) => {
            let v = e.valid_up_to();
            // utf8_valid_up_to: the longest valid prefix
            assert!(v < len);
            assert!(std::str::from_utf8(&b[..v]).is_ok());
            let j: usize = kani::any();
            kani::assume(v < j && j <= len);
            assert!(std::str::from_utf8(&b[..j]).is_err());
            // utf8_truncated <== : if some continuation t makes b + t valid, the error is "unexpected end" (error_len None)
            let t: [u8; 3] = kani::any();
            let tl: usize = kani::any();
            kani::assume(1 <= tl && tl <= 3 && len + tl <= 7);
            let mut ext = [0u8; 7];
            let mut i = 0;
            while i < len { ext[i] = b[i]; i += 1; }
            let mut k = 0;
            while k < tl { ext[len + k] = t[k]; k += 1; }
            if std::str::from_utf8(&ext[..len + tl]).is_ok() { assert!(e.error_len().is_none()); }
            // utf8_truncated ==> : when error_len is None, a continuation exists - the canonical one for the lead byte
            if e.error_len().is_none() {
                let lead = b[v];
                let need: usize = if lead >= 0xF0 { 4 } else if lead >= 0xE0 { 3 } else { 2 };
                let have = len - v;
                assert!(have < need);
                let mut w = [0u8; 8];
                let mut i = 0;
                while i < len { w[i] = b[i]; i += 1; }
                let mut pos = have;
                while pos < need {
                    // second byte: the narrowest range valid for the lead; later bytes: any continuation byte
                    w[v + pos] = if pos == 1 { match lead { 0xE0 => 0xA0, 0xF0 => 0x90, _ => 0x80 } } else { 0x80 };
                    pos += 1;
                }
                assert!(std::str::from_utf8(&w[..v + need]).is_ok());
            }
        }
    }
}
