//! Kani harnesses for the misalcedo/ppp verification (run from a scratch copy; see driver/kani_runner.py).
//!   * `std_*`  : cross-checks of the contracts that contracts/prelude.rs ASSUMES about std
//!                (complete when loop-free over the full domain, otherwise bounded as stated);
//!   * `fmt_*`  : bounded stand-ins for the `Display` impls (core::fmt is outside Verus' reach);
//!   * `v2_*`   : second back end on the real crate as compiled by rustc (bounded by input length).
#![allow(unused)]

#[cfg(kani)]
mod std_checks;
#[cfg(kani)]
mod fmt_checks;
#[cfg(kani)]
mod v2_checks;
