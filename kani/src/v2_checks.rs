//! Second back end for the v2 parser (C02, C04, C05, C12, C14, C17): Kani / CBMC on the REAL crate as
//! compiled by rustc (no extraction, no rewrites), compared with a structural transcription of
//! `v2_spec_err` / `v2_decoded` (contracts/spec_v2.rs) on EVERY input of at most 56 bytes
//! (all byte values, symbolic).  Bounded by the input length only: it covers the unspecified, IPv4
//! and IPv6 families completely up to that length (a Unix header needs 232 bytes and is seen here
//! only through its error and `Partial` paths).  A cross-check of the whole Verus pipeline
//! (extractor + contracts), never counted as the proof.
use ppp::v2::{Addresses, Header, ParseError};
use std::convert::TryFrom;

const SIG: [u8; 12] = [13, 10, 13, 10, 0, 13, 10, 81, 85, 73, 84, 10];

fn fam_size(f: u8) -> usize { match f { 0x10 => 12, 0x20 => 36, 0x30 => 216, _ => 0 } }

/// contracts/spec_v2.rs: v2_spec_err
fn spec_err(s: &[u8]) -> Option<ParseError> {
    if s.len() < 12 {
        let mut is_prefix = true;
        let mut i = 0;
        while i < 12 { if i < s.len() && s[i] != SIG[i] { is_prefix = false; } i += 1; }
        return Some(if is_prefix { ParseError::Incomplete(s.len()) } else { ParseError::Prefix });
    }
    let mut same = true;
    let mut i = 0;
    while i < 12 { if s[i] != SIG[i] { same = false; } i += 1; }
    if !same { return Some(ParseError::Prefix); }
    if s.len() < 16 { return Some(ParseError::Incomplete(s.len())); }
    let (v, c, f, p) = (s[12] & 0xF0, s[12] & 0x0F, s[13] & 0xF0, s[13] & 0x0F);
    if v != 0x20 { return Some(ParseError::Version(v)); }
    if c > 1 { return Some(ParseError::Command(c)); }
    if !(f == 0x00 || f == 0x10 || f == 0x20 || f == 0x30) { return Some(ParseError::AddressFamily(f)); }
    if p > 2 { return Some(ParseError::Protocol(p)); }
    let len = (s[14] as usize) * 256 + s[15] as usize;
    if len < fam_size(f) { return Some(ParseError::InvalidAddresses(len, fam_size(f))); }
    if s.len() < 16 + len { return Some(ParseError::Partial(s.len() - 16, len)); }
    None
}

#[kani::proof]
#[kani::unwind(60)]
fn v2_parse_matches_spec_56() { v2_parse_matches_spec::<56>() }

/// the same at 240 bytes: reaches accepted Unix headers (232 bytes) with up to 8 TLV bytes
#[kani::proof]
#[kani::unwind(244)]
fn v2_parse_matches_spec_240() { v2_parse_matches_spec::<240>() }

fn v2_parse_matches_spec<const N: usize>() {
    let buf: [u8; N] = kani::any();
    let n: usize = kani::any();
    kani::assume(n <= N);
    let s = &buf[..n];
    let got = Header::try_from(s);
    match spec_err(s) {
        Some(e) => {
            match got { Err(g) => assert!(g == e), Ok(_) => assert!(false) }
        }
        None => {
            kani::cover!(true, "some input is accepted");
            let h = match got { Ok(h) => h, Err(_) => { assert!(false); return; } };
            let len = (s[14] as usize) * 256 + s[15] as usize;
            let f = s[13] & 0xF0;
            // v2_decoded: the header is the first 16 + len bytes; command / protocol / family as on the wire
            assert!(h.header.len() == 16 + len);
            let i: usize = kani::any();
            kani::assume(i < 16 + len);
            assert!(h.header[i] == s[i]);
            assert!(h.command as u8 == s[12] & 0x0F);
            assert!(h.protocol as u8 == s[13] & 0x0F);
            assert!(h.address_family() as u8 == f);
            assert!(h.length() == len && h.len() == 16 + len);
            let b = &s[16..];
            match h.addresses {
                Addresses::Unspecified => assert!(f == 0x00),
                Addresses::IPv4(a) => {
                    assert!(f == 0x10);
                    assert!(a.source_address.octets() == [b[0], b[1], b[2], b[3]]);
                    assert!(a.destination_address.octets() == [b[4], b[5], b[6], b[7]]);
                    assert!(a.source_port == (b[8] as u16) * 256 + b[9] as u16);
                    assert!(a.destination_port == (b[10] as u16) * 256 + b[11] as u16);
                }
                Addresses::IPv6(a) => {
                    assert!(f == 0x20);
                    let so = a.source_address.octets();
                    let de = a.destination_address.octets();
                    let j: usize = kani::any();
                    kani::assume(j < 16);
                    assert!(so[j] == b[j] && de[j] == b[16 + j]);
                    assert!(a.source_port == (b[32] as u16) * 256 + b[33] as u16);
                    assert!(a.destination_port == (b[34] as u16) * 256 + b[35] as u16);
                }
                Addresses::Unix(a) => {
                    assert!(f == 0x30);
                    let j: usize = kani::any();
                    kani::assume(j < 108);
                    assert!(a.source[j] == b[j] && a.destination[j] == b[108 + j]);
                }
            }
            // C14: the views partition the payload
            let end = if f == 0 { 16 + len } else { 16 + fam_size(f) };
            assert!(h.address_bytes().len() == end - 16 && h.tlv_bytes().len() == 16 + len - end);
            let k: usize = kani::any();
            kani::assume(k < len);
            if 16 + k < end { assert!(h.address_bytes()[k] == s[16 + k]); } else { assert!(h.tlv_bytes()[16 + k - end] == s[16 + k]); }
        }
    }
}

/// TLV iteration on the real crate (C11, C03): every section of at most 12 bytes (all byte values) yields
/// exactly the standard type / length / value walk, one error item at most, and then stops
#[kani::proof]
#[kani::unwind(16)]
fn tlv_walk_matches_spec_12() {
    use ppp::v2::TypeLengthValues;
    const M: usize = 12;
    let buf: [u8; M] = kani::any();
    let n: usize = kani::any();
    kani::assume(n <= M);
    let s = &buf[..n];
    let mut it = TypeLengthValues::from(s);
    let mut off = 0usize;      // the specification's cursor
    let mut done = false;
    let mut steps = 0;
    while steps < 6 {
        let item = it.next();
        if done || off >= n {
            assert!(item.is_none());
        } else if n - off < 3 {
            match item { Some(Err(ParseError::Leftovers(_))) => {} , _ => assert!(false) }   // the count it carries is not part of C11
            done = true;
        } else {
            let kind = s[off];
            let len = (s[off + 1] as usize) * 256 + s[off + 2] as usize;
            if n - off - 3 < len {
                match item { Some(Err(ParseError::InvalidTLV(k, l))) => assert!(k == kind && l as usize == len), _ => assert!(false) }
                done = true;
            } else {
                match item {
                    Some(Ok(t)) => {
                        assert!(t.kind == kind && t.value.len() == len);
                        let j: usize = kani::any();
                        kani::assume(j < len);
                        assert!(t.value[j] == s[off + 3 + j]);
                    }
                    _ => assert!(false),
                }
                off += 3 + len;
            }
        }
        steps += 1;
    }
    // n/3 + 1 items at most (C03): after 5 steps a 12-byte section is exhausted
    assert!(done || off >= n);
}
