use ppp::v1::Addresses;
use std::net::{Ipv4Addr, Ipv6Addr};

/// decimal digits of x written into out[at..], returns the new position
fn put_u16(out: &mut [u8; 64], at: usize, x: u16) -> usize {
    let mut pos = at;
    let mut started = false;
    let mut div: u16 = 10000;
    let mut i = 0;
    while i < 5 {
        let d = (x / div) % 10;
        if d != 0 || started || div == 1 {
            out[pos] = b'0' + d as u8;
            pos += 1;
            started = true;
        }
        div /= 10;
        if div == 0 {
            div = 1;
        }
        i += 1;
    }
    pos
}

/// bounded stand-in (C08, C15): Display of v1::Addresses::Tcp4 for fixed addresses and symbolic
/// ports is `PROXY TCP4 <src> <dst> <sp> <dp>\r\n` with plain decimal ports
#[kani::proof]
#[kani::unwind(66)]
fn fmt_v1_tcp4_ports() {
    let sp: u16 = kani::any();
    let dp: u16 = kani::any();
    let a = Addresses::new_tcp4(Ipv4Addr::new(1, 2, 3, 4), Ipv4Addr::new(10, 20, 30, 40), sp, dp);
    let s = a.to_string();
    let b = s.as_bytes();
    let mut exp = [0u8; 64];
    let prefix = b"PROXY TCP4 1.2.3.4 10.20.30.40 ";
    let mut n = 0;
    while n < prefix.len() {
        exp[n] = prefix[n];
        n += 1;
    }
    n = put_u16(&mut exp, n, sp);
    exp[n] = b' ';
    n += 1;
    n = put_u16(&mut exp, n, dp);
    exp[n] = b'\r';
    exp[n + 1] = b'\n';
    n += 2;
    assert!(b.len() == n);
    let mut i = 0;
    while i < 64 {
        if i < n {
            assert!(b[i] == exp[i]);
        }
        i += 1;
    }
}

/// Display of Unknown and of a parsed Header (verbatim text)
#[kani::proof]
#[kani::unwind(20)]
fn fmt_v1_unknown_and_header() {
    assert!(Addresses::Unknown.to_string().as_bytes() == b"PROXY UNKNOWN\r\n");
    let h = ppp::v1::Header::new("PROXY UNKNOWN\r\n", Addresses::Unknown);
    assert!(h.to_string().as_bytes() == b"PROXY UNKNOWN\r\n");
}
