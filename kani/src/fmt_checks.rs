use ppp::v1::Addresses;
use std::net::{Ipv4Addr, Ipv6Addr};

/// number of decimal digits of x
fn ndigits(x: u16) -> usize {
    if x >= 10000 { 5 } else if x >= 1000 { 4 } else if x >= 100 { 3 } else if x >= 10 { 2 } else { 1 }
}
/// i-th (from the left) decimal digit of x
fn digit(x: u16, i: usize) -> u8 {
    let n = ndigits(x);
    let p: u16 = match n - 1 - i { 0 => 1, 1 => 10, 2 => 100, 3 => 1000, _ => 10000 };
    b'0' + ((x / p) % 10) as u8
}

/// bounded stand-in (C08, C15): Display of v1::Addresses::Tcp4 for a fixed address pair, a symbolic
/// source port and the destination port 443 is `PROXY TCP4 1.2.3.4 5.6.7.8 <sp> 443\r\n` with the
/// source port in plain decimal (no sign, no padding)
#[kani::proof]
#[kani::unwind(40)]
fn fmt_v1_tcp4_source_port() {
    let sp: u16 = kani::any();
    let a = Addresses::new_tcp4(Ipv4Addr::new(1, 2, 3, 4), Ipv4Addr::new(5, 6, 7, 8), sp, 443);
    let s = a.to_string();
    let b = s.as_bytes();
    let prefix = b"PROXY TCP4 1.2.3.4 5.6.7.8 ";
    let n = ndigits(sp);
    assert!(b.len() == prefix.len() + n + 6);
    let i: usize = kani::any();
    kani::assume(i < b.len());
    if i < prefix.len() {
        assert!(b[i] == prefix[i]);
    } else if i < prefix.len() + n {
        assert!(b[i] == digit(sp, i - prefix.len()));
    } else {
        let tail = b" 443\r\n";
        assert!(b[i] == tail[i - prefix.len() - n]);
    }
}

/// Display of Unknown and of a parsed Header (verbatim text)
#[kani::proof]
#[kani::unwind(20)]
fn fmt_v1_unknown_and_header() {
    assert!(Addresses::Unknown.to_string().as_bytes() == b"PROXY UNKNOWN\r\n");
    let h = ppp::v1::Header::new("PROXY UNKNOWN\r\n", Addresses::Unknown);
    assert!(h.to_string().as_bytes() == b"PROXY UNKNOWN\r\n");
}
