"""Minimal Rust lexer + item splitter used by the extractor.

It is NOT a Rust parser.  It understands exactly what is needed to cut a source file into
items without being fooled by braces inside strings, chars, lifetimes and comments:
line/block comments (nested), string / raw string / byte string literals, char and byte
literals vs lifetimes, and bracket nesting.  Anything it cannot classify raises
ExtractError, which the driver turns into exit code 2 (never into a VIOLATION).
"""
import re


class ExtractError(Exception):
    pass


class Tok:
    __slots__ = ("kind", "text", "start", "end", "line")

    def __init__(self, kind, text, start, end, line):
        self.kind = kind      # 'ws','comment','doc','str','char','lifetime','ident','num','punct'
        self.text = text
        self.start = start
        self.end = end
        self.line = line

    def __repr__(self):
        return f"Tok({self.kind},{self.text!r},L{self.line})"


_ident_re = re.compile(r"[A-Za-z_][A-Za-z0-9_]*")
_num_re = re.compile(r"[0-9][0-9A-Za-z_]*(\.[0-9][0-9A-Za-z_]*)?")


def lex(src):
    toks = []
    i = 0
    n = len(src)
    line = 1
    while i < n:
        c = src[i]
        start = i
        if c in " \t\r\n":
            while i < n and src[i] in " \t\r\n":
                i += 1
            kind = "ws"
        elif src.startswith("//", i):
            j = src.find("\n", i)
            if j < 0:
                j = n
            text = src[i:j]
            kind = "doc" if (text.startswith("///") and not text.startswith("////")) or text.startswith("//!") else "comment"
            i = j
        elif src.startswith("/*", i):
            depth = 1
            i += 2
            while i < n and depth > 0:
                if src.startswith("/*", i):
                    depth += 1
                    i += 2
                elif src.startswith("*/", i):
                    depth -= 1
                    i += 2
                else:
                    i += 1
            if depth:
                raise ExtractError("unterminated block comment")
            kind = "comment"
        elif c == '"' or (c == "b" and src.startswith('b"', i)):
            if c == "b":
                i += 1
            i += 1
            while i < n and src[i] != '"':
                if src[i] == "\\":
                    i += 1
                i += 1
            if i >= n:
                raise ExtractError("unterminated string literal")
            i += 1
            kind = "str"
        elif (c == "r" and re.match(r'r#*"', src[i:i + 8])) or (c == "b" and re.match(r'br#*"', src[i:i + 9])):
            m = re.match(r'b?r(#*)"', src[i:])
            hashes = m.group(1)
            endpat = '"' + hashes
            j = src.find(endpat, i + len(m.group(0)))
            if j < 0:
                raise ExtractError("unterminated raw string")
            i = j + len(endpat)
            kind = "str"
        elif c == "'" or (c == "b" and src.startswith("b'", i)):
            j = i + (2 if c == "b" else 1)
            # char literal: '\x' escapes or single char followed by '
            if j < n and src[j] == "\\":
                k = j + 2
                while k < n and src[k] != "'":
                    k += 1
                i = k + 1
                kind = "char"
            elif j + 1 < n and src[j + 1] == "'":
                i = j + 2
                kind = "char"
            else:
                # multi-byte char literal like 'é' handled above (single code point); otherwise lifetime
                m = _ident_re.match(src, j)
                if not m or c == "b":
                    raise ExtractError(f"cannot lex quote at line {line}")
                i = m.end()
                kind = "lifetime"
        elif c.isalpha() or c == "_":
            m = _ident_re.match(src, i)
            i = m.end()
            kind = "ident"
        elif c.isdigit():
            m = _num_re.match(src, i)
            i = m.end()
            kind = "num"
        else:
            i += 1
            kind = "punct"
        text = src[start:i]
        toks.append(Tok(kind, text, start, i, line))
        line += text.count("\n")
    return toks


OPEN = {"(": ")", "[": "]", "{": "}"}
CLOSE = {")": "(", "]": "[", "}": "{"}


def significant(toks):
    return [t for t in toks if t.kind not in ("ws", "comment", "doc")]


def match_close(toks, i):
    """toks[i] is an opening bracket; return index of its matching close."""
    depth = 0
    j = i
    while j < len(toks):
        t = toks[j]
        if t.kind == "punct":
            if t.text in OPEN:
                depth += 1
            elif t.text in CLOSE:
                depth -= 1
                if depth == 0:
                    return j
        j += 1
    raise ExtractError(f"unbalanced bracket starting at line {toks[i].line}")


class Item:
    """One item of a module / impl / trait body."""

    def __init__(self, src, toks, lo, hi, attr_hi):
        self.src = src
        self.toks = toks
        self.lo = lo            # first token (incl. attributes / docs)
        self.attr_hi = attr_hi  # first token of the item proper
        self.hi = hi            # one past last token
        self.kind = None
        self.name = None
        self.header = None      # normalized text before the body / up to ';'
        self.body_open = None   # token index of '{' of the body (or None)
        self.body_close = None
        self.attrs = []         # attribute texts
        self.vis = ""

    @property
    def line(self):
        return self.toks[self.attr_hi].line

    def text(self, a=None, b=None):
        a = self.attr_hi if a is None else a
        b = self.hi if b is None else b
        if a >= b:
            return ""
        return self.src[self.toks[a].start:self.toks[b - 1].end]

    def full_text(self):
        return self.text(self.attr_hi, self.hi)


def norm(s):
    """normalize whitespace in a header so that keys survive re-formatting"""
    s = re.sub(r"\s+", " ", s).strip()
    s = re.sub(r"\s*([<>(),:&])\s*", r"\1", s)
    return s


def split_items(src, toks, lo, hi):
    """Split toks[lo:hi] (the inside of a module / impl / trait) into Items."""
    items = []
    i = lo
    while i < hi:
        # skip whitespace/comments
        while i < hi and toks[i].kind in ("ws", "comment"):
            i += 1
        if i >= hi:
            break
        start = i
        attrs = []
        # attributes and doc comments
        while i < hi:
            t = toks[i]
            if t.kind in ("ws", "comment", "doc"):
                i += 1
            elif t.kind == "punct" and t.text == "#":
                j = i + 1
                while toks[j].kind == "ws":
                    j += 1
                if toks[j].text == "!":
                    j += 1
                if toks[j].text != "[":
                    raise ExtractError(f"stray '#' at line {t.line}")
                k = match_close(toks, j)
                attrs.append(src[toks[i].start:toks[k].end])
                i = k + 1
            else:
                break
        if i >= hi:
            # trailing attrs/docs with no item (e.g. inner doc comments at file top)
            break
        item_start = i
        # find end: first ';' at depth 0 or the close of the first '{' at depth 0
        j = i
        body_open = body_close = None
        end = None
        lead = [t.text for t in toks[i:min(hi, i + 12)] if t.kind == "ident"][:3]
        is_use = bool(lead) and (lead[0] == "use" or (lead[0] == "pub" and "use" in lead[1:3]))
        while j < hi:
            t = toks[j]
            if t.kind == "punct":
                if t.text == ";":
                    end = j + 1
                    break
                if t.text == "{" and is_use:
                    j = match_close(toks, j)
                elif t.text == "{":
                    body_open = j
                    body_close = match_close(toks, j)
                    end = body_close + 1
                    break
                if t.text in ("(", "["):
                    j = match_close(toks, j)
            j += 1
        if end is None:
            raise ExtractError(f"item at line {toks[item_start].line} has no end")
        it = Item(src, toks, start, end, item_start)
        it.attrs = attrs
        it.body_open = body_open
        it.body_close = body_close
        # macro invocation like foo!(..); or macro_rules! name {..}
        sig = [t for t in toks[item_start:(body_open if body_open is not None else end)] if t.kind not in ("ws", "comment", "doc")]
        words = [t.text for t in sig]
        k = 0
        vis = ""
        if words and words[0] == "pub":
            vis = "pub"
            k = 1
            if len(words) > 1 and words[1] == "(":
                # pub(crate) etc
                close = words.index(")")
                vis = "".join(words[0:close + 1])
                k = close + 1
        it.vis = vis
        kw = words[k] if k < len(words) else ""
        if kw in ("unsafe", "async", "extern", "static", "union"):
            raise ExtractError(f"unsupported item keyword '{kw}' at line {toks[item_start].line}")
        if kw == "macro_rules":
            it.kind = "macro_rules"
            it.name = words[k + 2]
        elif len(words) > k + 1 and words[k + 1] == "!":
            it.kind = "macro_call"
            it.name = kw
            # a macro call with (...) ends at ';' -- already handled; with {...} ends at '}'
        elif kw in ("use", "mod", "const", "struct", "enum", "trait", "fn", "type", "impl"):
            it.kind = kw
            if kw == "impl":
                it.name = None
            elif kw == "use":
                it.name = None
            else:
                it.name = words[k + 1]
        else:
            raise ExtractError(f"unknown item starting with '{kw}' at line {toks[item_start].line}")
        hdr_end = body_open if body_open is not None else end - 1
        it.header = norm(src[toks[item_start].start:toks[hdr_end].start])
        items.append(it)
        i = end
    return items
