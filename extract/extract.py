#!/usr/bin/env python3
"""Mechanical extraction of /repo/src into one Verus file.

    extract.py --repo /repo --contracts /verif/contracts --out build/ppp_verus.rs
               [--vacuity]      additionally emit <out>_vacuity.rs (every contracted
                                function also `ensures false`)

Every function body in the output is the text found in the repository *now*, copied
token for token, modified only by the rewrites R1..R9 documented in DESIGN.md (each
application is counted and reported).  Contracts come from the side-car files
contracts/src/<path>.contract, keyed by item.  The extractor fails closed (ExtractError
-> exit 2): an item it does not know, a side-car entry without a matching item, a rewrite
anchor that no longer matches, all stop the run *without* a verdict.
"""
import argparse
import hashlib
import json
import os
import re
import sys

sys.path.insert(0, os.path.dirname(os.path.abspath(__file__)))
from rustlex import ExtractError, lex, split_items, norm, match_close  # noqa: E402


# --------------------------------------------------------------------------------------
# side-car parsing
# --------------------------------------------------------------------------------------
class Clause:
    def __init__(self, kind, tags, text, cid):
        self.kind = kind      # requires / ensures / invariant / decreases / ...
        self.tags = tags
        self.text = text
        self.cid = cid


class Contract:
    def __init__(self, key, where):
        self.key = key
        self.where = where
        self.ret = None
        self.props = []
        self.clauses = []      # list[Clause] for the signature
        self.loops = {}        # ordinal -> list[Clause]
        self.hints = []        # (mode, regex, text)
        self.skip = None       # reason string: item is not extracted
        self.external_body = None  # reason: body not verified (assumed contract)
        self.extra = ""        # raw text placed inside an impl / trait body
        self.attrs = []        # extra verus attributes
        self.sig_override = None
        self.sig_expect = None
        self.rewrites = []     # (name, regex, replacement): function-specific anchored rewrites, each must match exactly once
        self.closures = {}     # ordinal -> (expected param text, [header line, prelude lines...])
        self.used = False
        self.mode = None       # 'spec-const' etc.
        self.params = None     # parameter names the clauses were written with (R22)
        self.binds = []        # (name used in the clauses, regex with one group that finds the local's current name)
        self.ensures_false_ok = True


def parse_sidecar(path, relsrc):
    """returns (contracts: dict key->Contract, file_extra: str, file_pre: str)"""
    contracts = {}
    file_extra = []
    file_pre = []
    cur = None
    section = None      # current clause section name
    buf = None          # current clause being accumulated
    raw_target = None   # list collecting raw lines
    nclause = 0

    def flush():
        nonlocal buf
        if buf is not None:
            buf.text = buf.text.rstrip()
            buf = None

    with open(path) as f:
        lines = f.read().split("\n")
    i = 0
    while i < len(lines):
        line = lines[i]
        i += 1
        if raw_target is not None:
            if line.strip() == "<<<":
                raw_target = None
            else:
                raw_target.append(line)
            continue
        s = line.strip()
        if s.startswith("#") and not s.startswith("#["):
            continue
        if s.startswith("== "):
            flush()
            rest = s[3:].strip()
            m = re.match(r"(item|skip|file-extra|file-pre|bootstrap-skip-unknown|broadcast)\b\s*(.*)", rest)
            if not m:
                raise ExtractError(f"{path}:{i}: bad section header {s!r}")
            kind, arg = m.group(1), m.group(2).strip()
            section = None
            if kind == "file-extra":
                cur = None
                raw_target = file_extra
                if arg != ">>>":
                    raise ExtractError(f"{path}:{i}: file-extra needs >>>")
                continue
            if kind == "file-pre":
                cur = None
                raw_target = file_pre
                continue
            if kind == "broadcast":
                cur = None
                file_pre.append("@broadcast " + arg)
                continue
            if kind == "bootstrap-skip-unknown":
                cur = None
                contracts["*"] = Contract("*", f"{path}:{i}")
                contracts["*"].skip = "bootstrap: not yet under contract"
                contracts["*"].used = True
                continue
            key = norm_key(arg if kind == "item" else arg.split(" -- ")[0])
            if key in contracts:
                raise ExtractError(f"{path}:{i}: duplicate key {key}")
            cur = Contract(key, f"{path}:{i}")
            contracts[key] = cur
            if kind == "skip":
                parts = arg.split(" -- ", 1)
                cur.skip = parts[1] if len(parts) > 1 else "not extracted"
            continue
        if cur is None:
            if s:
                raise ExtractError(f"{path}:{i}: text outside a section: {s!r}")
            continue
        m = re.match(r"(ret|props|external_body|attr|sig-expect|sig|mode|params):\s*(.*)$", s)
        if m and buf is None or (m and not line.startswith("    ")):
            flush()
            section = None
            k, v = m.group(1), m.group(2)
            if k == "ret":
                cur.ret = v
            elif k == "props":
                cur.props = v.replace(",", " ").split()
            elif k == "external_body":
                cur.external_body = v or "assumed"
            elif k == "attr":
                cur.attrs.append(v)
            elif k == "sig":
                cur.sig_override = v
            elif k == "sig-expect":
                cur.sig_expect = v
            elif k == "mode":
                cur.mode = v
            elif k == "params":
                cur.params = v.split()
            continue
        m = re.match(r"(requires|ensures|decreases|recommends|no_unwind|returns):\s*$", s)
        if m:
            flush()
            section = (m.group(1), None)
            continue
        m = re.match(r"loop\s+(\d+)\s+(invariant|invariant_except_break|ensures|decreases):\s*$", s)
        if m:
            flush()
            section = (m.group(2), int(m.group(1)))
            continue
        m = re.match(r"bind\s+(\w+):\s*/(.*)/\s*$", s)
        if m and cur is not None:
            flush()
            section = None
            cur.binds.append((m.group(1), m.group(2)))
            continue
        m = re.match(r"rewrite\s+(\w+):\s*/(.*)/\s*=>\s*(.*)$", s)
        if m and cur is not None:
            flush()
            section = None
            cur.rewrites.append((m.group(1), m.group(2), m.group(3)))
            continue
        m = re.match(r"closure\s+(\d+)\s+expect\s+(.*?)\s*>>>\s*$", s)
        if m:
            flush()
            section = None
            tgt = []
            raw_target = tgt
            cur.closures[int(m.group(1))] = (m.group(2), tgt)
            continue
        m = re.match(r"(extra|hint-before|hint-after)\b\s*(.*?)\s*>>>\s*$", s)
        if m:
            flush()
            section = None
            tgt = []
            raw_target = tgt
            if m.group(1) == "extra":
                cur._extra_lines = tgt
            else:
                cur.hints.append((m.group(1), m.group(2), tgt))
            continue
        if section is None:
            if s:
                raise ExtractError(f"{path}:{i}: unexpected line {s!r}")
            continue
        # clause lines
        m = re.match(r"\[([A-Za-z0-9_, ~-]*)\]\s*(.*)$", s)
        if m:
            flush()
            tags = m.group(1).replace(",", " ").split()
            nclause += 1
            cid = f"{relsrc}#{cur.key}#{section[0]}{'' if section[1] is None else '@loop' + str(section[1])}#{nclause}"
            buf = Clause(section[0], tags, m.group(2), cid)
            if section[1] is None:
                cur.clauses.append(buf)
            else:
                cur.loops.setdefault(section[1], []).append(buf)
        elif buf is not None:
            buf.text += "\n" + line.rstrip()
        elif s:
            raise ExtractError(f"{path}:{i}: clause text before a [tags] marker: {s!r}")
    flush()
    for c in contracts.values():
        if hasattr(c, "_extra_lines"):
            c.extra = "\n".join(c._extra_lines)
        c.hints = [(m, r, "\n".join(t)) for (m, r, t) in c.hints]
    return contracts, "\n".join(file_extra), "\n".join(file_pre)


def norm_key(k):
    parts = [norm(p) for p in k.split("::fn ")] if False else None
    # key syntax:  <container header> :: fn name     or   fn name / struct X / const X ...
    segs = [norm(p) for p in re.split(r"\s+::\s+", k.strip())]
    return " :: ".join(segs)


# --------------------------------------------------------------------------------------
# generation
# --------------------------------------------------------------------------------------
STRIP_ATTR_PREFIXES = ("#[error", "#[source", "#[from", "#[must_use", "#[doc", "#[allow", "#[inline")


class Gen:
    def __init__(self, repo, cdir, vacuity=False, force_external=(), fallback=False):
        self.force_external = set(force_external)   # "src::key" of functions to leave unverified
        self.fallback = fallback                    # an ExtractError inside one function externalises it
        self.param_names = {}
        self.externalised = []                      # [(src, key, reason)]
        self.repo = repo
        self.cdir = cdir
        self.vacuity = vacuity
        self.out = []           # output lines
        self.linemap = []       # per output line: dict or None
        self.rewrites = {}      # name -> count
        self.items = []         # report of extracted items
        self.skipped = []
        self.functions = []     # functions under contract
        self.clauses = []       # all clause records
        self.macros = {}        # macro_rules name -> (param, body text)
        self.sidecars = {}
        self.cur_file = None
        self.hash = hashlib.sha256()

    # -- output helpers
    def emit(self, text, info=None):
        for ln in text.split("\n"):
            self.out.append(ln)
            self.linemap.append(info)

    def emit_src_lines(self, text, relsrc, first_line, fn_key):
        for k, ln in enumerate(text.split("\n")):
            self.out.append(ln)
            self.linemap.append({"src": relsrc, "line": first_line + k, "fn": fn_key})

    def count(self, name, n=1):
        if n:
            self.rewrites[name] = self.rewrites.get(name, 0) + n

    # -- module handling
    def module(self, relsrc, modname, vis, depth, is_root=False):
        path = os.path.join(self.repo, "src", relsrc)
        with open(path) as f:
            src = f.read()
        self.hash.update(relsrc.encode() + b"\0" + src.encode())
        sc_path = os.path.join(self.cdir, "src", relsrc + ".contract")
        if not os.path.exists(sc_path):
            raise ExtractError(f"no side-car for {relsrc}")
        contracts, file_extra, file_pre = parse_sidecar(sc_path, relsrc)
        self.sidecars[relsrc] = contracts
        toks = lex(src)
        items = split_items(src, toks, 0, len(toks))
        ind = "    " * depth
        if not is_root:
            self.emit(f"{ind}{vis + ' ' if vis else ''}mod {modname} {{")
        self.emit(f"{ind}#[allow(unused_imports)] use vstd::prelude::*;")
        self.emit(f"{ind}#[allow(unused_imports)] use crate::prelude::*;")
        self.emit(f"{ind}#[allow(unused_imports)] use crate::spec::*;")
        extra_groups = []
        if file_pre:
            keep = []
            for ln in file_pre.split("\n"):
                if ln.startswith("@broadcast "):
                    extra_groups += ln[len("@broadcast "):].split()
                else:
                    keep.append(ln)
            file_pre = "\n".join(keep)
        if file_pre.strip():
            self.emit(file_pre)
        # uses and child modules first (outside verus!), then the rest inside verus!{}
        rest = []
        for it in items:
            if it.kind == "use":
                self.emit(ind + it.full_text())
            elif it.kind == "mod":
                if any("cfg(test)" in a for a in it.attrs):
                    self.skipped.append({"src": relsrc, "item": f"mod {it.name}", "reason": "R7: #[cfg(test)] module"})
                    self.count("R7_cfg_test_mod")
                    continue
                if it.body_open is not None:
                    raise ExtractError(f"{relsrc}: inline module {it.name} not supported")
                d = os.path.dirname(relsrc)
                cand = [os.path.join(d, it.name + ".rs"), os.path.join(d, it.name, "mod.rs")]
                if is_root:
                    cand = [it.name + ".rs", os.path.join(it.name, "mod.rs")]
                child = next((c for c in cand if os.path.exists(os.path.join(self.repo, "src", c))), None)
                if child is None:
                    raise ExtractError(f"{relsrc}: cannot find module file for {it.name}")
                self.module(child, it.name, "pub", depth + (0 if is_root else 1))
            else:
                rest.append(it)
        # fallback: free functions that have no side-car entry (a helper introduced by a refactoring)
        self.unknown_fns = set()
        if self.fallback:
            for it in rest:
                if it.kind == "fn" and contracts.get(self.item_key(it, None)) is None:
                    self.unknown_fns.add(it.name)
                elif it.kind == "impl" and it.body_open is not None and not re.search(r"\bfor\b", it.header):
                    # inherent impls only: a method of a TRAIT impl inherits the trait method's contract, which
                    # would then be assumed for an unverified body - that stays an unknown item (exit 2)
                    ck = contracts.get(self.item_key(it, None))
                    if ck is not None and ck.skip:
                        continue
                    for sub in split_items(it.src, it.toks, it.body_open + 1, it.body_close):
                        if sub.kind == "fn" and sub.body_open is not None and contracts.get(self.item_key(sub, it)) is None \
                                and not ("*" in contracts and not any(k.startswith(self.item_key(sub, it) + " :: ") for k in contracts)):
                            self.unknown_fns.add(sub.name)
        self.emit(f"{ind}verus! {{")
        groups = ["prelude_axioms"] + extra_groups
        self.emit(f"{ind}broadcast use {{" + ", ".join(("crate::lemmas::" if g_.endswith("_lemmas") else "crate::prelude::") + g_ for g_ in groups) + "};")
        for it in rest:
            self.item(it, relsrc, contracts, container=None, ind=ind)
        self.emit_lit_consts(ind)
        if file_extra:
            self.emit(f"{ind}// ---- side-car additions for {relsrc} (specification only)")
            self.emit(file_extra, {"sidecar": relsrc})
        self.emit(f"{ind}}} // verus!")
        if not is_root:
            self.emit(f"{ind}}} // mod {modname}")
        unused = [c for c in contracts.values() if not c.used]
        if unused:
            raise ExtractError(f"{relsrc}: side-car entries without a matching item (anchor lost): "
                               + "; ".join(c.key for c in unused))

    def filtered_attrs(self, it):
        out = []
        for a in it.attrs:
            a1 = re.sub(r"\s+", " ", a)
            if a1.startswith(STRIP_ATTR_PREFIXES):
                self.count("R7_attr_dropped")
                continue
            if a1.startswith("#[derive"):
                inner = a1[a1.index("(") + 1:a1.rindex(")")]
                names = [x.strip() for x in inner.split(",") if x.strip()]
                keep = [x for x in names if x not in ("thiserror::Error", "Default")]
                if len(keep) != len(names):
                    self.count("R7_derive_dropped", len(names) - len(keep))
                if keep:
                    out.append("#[derive(" + ", ".join(keep) + ")]")
                continue
            out.append(a1)
        return out

    def strip_inner_attrs(self, text):
        """remove doc comments and thiserror field attributes inside struct/enum bodies"""
        toks = lex(text)
        res = []
        i = 0
        while i < len(toks):
            t = toks[i]
            if t.kind == "doc":
                i += 1
                continue
            if t.kind == "punct" and t.text == "#":
                j = i + 1
                while toks[j].kind == "ws":
                    j += 1
                if toks[j].text == "[":
                    k = match_close(toks, j)
                    a = re.sub(r"\s+", " ", text[t.start:toks[k].end])
                    if a.startswith(STRIP_ATTR_PREFIXES):
                        self.count("R7_attr_dropped")
                        i = k + 1
                        continue
            res.append(t.text)
            i += 1
        out = "".join(res)
        out = re.sub(r"\n[ \t]*\n+", "\n", out)
        return out

    # -- items
    def item(self, it, relsrc, contracts, container, ind):
        key = self.item_key(it, container)
        c = contracts.get(key)
        if c is None and "*" in contracts and it.kind in ("fn", "impl", "trait", "macro_call", "macro_rules"):
            if not any(k.startswith(key + " :: ") for k in contracts):
                c = contracts["*"]
        if c is not None:
            c.used = True
        if c is not None and c.skip:
            self.skipped.append({"src": relsrc, "item": key, "reason": c.skip})
            self.count("skip_item")
            return
        kind = it.kind
        if kind == "macro_rules":
            body = it.text(it.body_open + 1, it.body_close)
            m = re.match(r"\s*\(\s*\$(\w+)\s*:\s*ident\s*\)\s*=>\s*\{(.*)\}\s*;?\s*$", body, re.S)
            if not m:
                raise ExtractError(f"{relsrc}: macro_rules {it.name}: unsupported shape")
            self.macros[it.name] = (m.group(1), m.group(2), it.toks[it.body_open].line)
            self.skipped.append({"src": relsrc, "item": key, "reason": "R6: macro definition; its invocations are expanded textually"})
            return
        if kind == "macro_call":
            if it.name not in self.macros:
                raise ExtractError(f"{relsrc}:{it.line}: unknown macro {it.name}!")
            param, body, mline = self.macros[it.name]
            arg = it.text().split("(", 1)[1].rsplit(")", 1)[0].strip()
            if not re.fullmatch(r"\w+", arg):
                raise ExtractError(f"{relsrc}:{it.line}: macro argument {arg!r}")
            text = body.replace("$" + param, arg)
            self.count("R6_macro_expansion")
            toks = lex(text)
            sub = split_items(text, toks, 0, len(toks))
            self.macro_arg = arg
            for s in sub:
                self.item(s, relsrc, contracts, container, ind)
            self.macro_arg = None
            return
        attrs = self.filtered_attrs(it)
        if c is not None:
            attrs = attrs + c.attrs
        if kind in ("struct", "enum"):
            for a in attrs:
                self.emit(ind + a)
            self.emit(ind + self.strip_inner_attrs(it.full_text()).replace("\n", "\n" + ""), {"src": relsrc, "line": it.line, "item": key})
            self.items.append({"src": relsrc, "item": key, "line": it.line})
            return
        if kind == "type":
            self.emit(ind + it.full_text())
            return
        if kind == "const":
            self.const_item(it, relsrc, key, c, attrs, ind)
            return
        if kind in ("impl", "trait"):
            if c is None and kind == "trait":
                raise ExtractError(f"{relsrc}:{it.line}: trait without side-car entry: {key}")
            for a in attrs:
                self.emit(ind + a)
            hdr = it.text(it.attr_hi, it.body_open)
            if c is not None and c.mode == "inherent":
                # R21: Verus does not allow `requires` on a trait-method implementation; where the
                # method needs the value's invariant as a precondition the impl is emitted as an
                # inherent impl of the same type (`impl<G> Trait for Type` -> `impl<G> Type`); the
                # method bodies are unchanged.  Drops: the fact that the method is reachable through
                # the trait (callers inside the crate would no longer resolve -> fail closed).
                mh = re.match(r"(?s)^(\s*impl\s*(?:<[^>]*>)?)\s*[\w:]+(?:<[^>]*>)?\s+for\s+(.*)$", hdr.rstrip())
                if not mh:
                    raise ExtractError(f"{relsrc}:{it.line}: R21: cannot make `{hdr.strip()}` inherent")
                hdr = mh.group(1) + " " + mh.group(2)
                self.count("R21_trait_impl_as_inherent")
            self.emit(ind + hdr.rstrip() + " {", {"src": relsrc, "line": it.line, "item": key})
            inner = split_items(it.src, it.toks, it.body_open + 1, it.body_close)
            if c is not None and c.extra:
                self.emit(c.extra, {"sidecar": relsrc, "item": key})
            for s in inner:
                self.item(s, relsrc, contracts, container=it, ind=ind + "    ")
            self.emit(ind + "}")
            return
        if kind == "fn":
            self.fn_item(it, relsrc, key, c, attrs, ind, container)
            return
        raise ExtractError(f"{relsrc}:{it.line}: unsupported item kind {kind}")

    def item_key(self, it, container):
        if it.kind == "impl":
            k = it.header
        elif it.kind == "macro_call":
            k = f"{it.name}!({it.text().split('(', 1)[1].rsplit(')', 1)[0].strip()})"
        elif it.kind == "use":
            k = "use"
        else:
            k = f"{it.kind} {it.name}"
        if container is not None:
            chdr = container.header
            if container.kind == "trait":
                chdr = f"trait {container.name}"
            k = f"{chdr} :: {k}"
        return norm_key(k)

    def const_item(self, it, relsrc, key, c, attrs, ind):
        text = it.full_text()
        m = re.match(r"(?s)((?:pub(?:\([a-z]+\))?\s+)?)const\s+(\w+)\s*:\s*(.*?)\s*=\s*(.*);\s*$", text)
        if not m:
            raise ExtractError(f"{relsrc}:{it.line}: cannot parse const")
        vis, name, ty, val = m.groups()
        info = {"src": relsrc, "line": it.line, "item": key}
        ty2 = ty
        if ty.startswith("&") and "'static" not in ty:
            ty2 = "&'static " + ty[1:].lstrip()
            self.count("R1_static_lifetime")
        val2 = val
        mb = re.fullmatch(r'b"((?:[^"\\]|\\.)*)"', val)
        if mb:
            bs = eval('b"' + mb.group(1) + '"')
            val2 = "&[" + ", ".join(f"{b}u8" for b in bs) + "]"
            self.count("R1_bytestring_to_array")
        ms = re.fullmatch(r'"((?:[^"\\]|\\.)*)"', val)
        if ms and ty2.replace(" ", "") == "&'staticstr":
            # R1 (str): the byte value of the literal is computed here and handed to Verus as an
            # assumed ensures (Verus cannot evaluate spec_bytes of a literal)
            bs = eval('"' + ms.group(1) + '"').encode("utf-8")
            for a in attrs:
                self.emit(ind + a)
            self.emit(f"{ind}#[verifier::external_body]")
            self.emit(f"{ind}{vis}exec const {name}: {ty2}", info)
            self.emit(f"{ind}    ensures sb({name}) =~= seq![" + ", ".join(f"{b}u8" for b in bs) + "]", {"generated": "R1 str const", "src": relsrc})
            self.emit(f"{ind}{{ {val2} }}", info)
            self.count("R1_str_const_bytes")
            self.items.append({"src": relsrc, "item": key, "line": it.line})
            return
        mc = re.fullmatch(r"'((?:[^'\\]|\\.)*)'", val)
        if mc and ty2.strip() == "char":
            ch = eval("'" + mc.group(1) + "'")
            for a in attrs:
                self.emit(ind + a)
            self.emit(f"{ind}{vis}exec const {name}: char", info)
            self.emit(f"{ind}    ensures {name} as u32 == {ord(ch)}u32", {"generated": "R1 char const", "src": relsrc})
            self.emit(f"{ind}{{ {val2} }}", info)
            self.count("R1_char_const")
            self.items.append({"src": relsrc, "item": key, "line": it.line})
            return
        for a in attrs:
            self.emit(ind + a)
        if c is not None and c.clauses:
            ens = [cl for cl in c.clauses if cl.kind == "ensures"]
            self.emit(f"{ind}{vis}exec const {name}: {ty2}", info)
            self.emit_clauses(ens, ind + "    ", relsrc, key)
            self.emit(f"{ind}{{ {val2} }}", info)
            self.functions.append({"src": relsrc, "item": key, "line": it.line, "kind": "const", "clauses": len(ens)})
        else:
            self.emit(f"{ind}{vis}const {name}: {ty2} = {val2};", info)
        self.items.append({"src": relsrc, "item": key, "line": it.line})

    def emit_clauses(self, clauses, ind, relsrc, key):
        last = None
        for cl in clauses:
            if cl.kind != last:
                self.emit(f"{ind}{cl.kind}")
                last = cl.kind
            info = {"clause": cl.cid, "tags": cl.tags, "kind": cl.kind, "fn": key, "src": relsrc}
            txt = cl.text.rstrip().rstrip(",")
            for ln in txt.split("\n"):
                self.emit(f"{ind}    {ln.strip() if False else ln}", info)
            self.out[-1] += ","
            self.clauses.append({"id": cl.cid, "tags": cl.tags, "kind": cl.kind, "fn": key, "src": relsrc, "text": cl.text.strip()})

    def rename_contract(self, c, ren):
        """copy of contract `c` with whole-word occurrences of the old parameter names (not field accesses)
        replaced in every clause, loop clause, closure specification and hint"""
        import copy
        def sub(txt):
            for o, n in ren.items():
                txt = re.sub(r"(?<![\w.])" + re.escape(o) + r"\b", "\x00" + n + "\x00", txt)
            return txt.replace("\x00", "")
        c2 = copy.copy(c)
        c2.clauses = [Clause(cl.kind, cl.tags, sub(cl.text), cl.cid) for cl in c.clauses]
        c2.loops = {k: [Clause(cl.kind, cl.tags, sub(cl.text), cl.cid) for cl in v] for k, v in c.loops.items()}
        c2.hints = [(m, r, sub(t)) for (m, r, t) in c.hints]
        c2.closures = {k: (v[0], [sub(x) for x in v[1]]) if isinstance(v, tuple) else v for k, v in c.closures.items()}
        return c2

    # -- functions
    def fn_item(self, it, relsrc, key, c, attrs, ind, container):
        in_trait_decl = container is not None and container.kind == "trait"
        if c is None and self.fallback and (container is None or container.kind == "impl") and it.body_open is not None and it.name in getattr(self, "unknown_fns", ()):
            # a new function or method without contract: nothing is known about it, nothing is assumed about
            # it (external_body, no clauses); every function that calls it is externalised as well (below),
            # so no proof ever rests on it and the properties of its callers are decided by the bounded stand-in
            for a in attrs:
                self.emit(ind + a)
            self.emit(ind + "#[verifier::external_body]")
            self.emit(ind + it.text(it.attr_hi, it.body_open).rstrip(), {"src": relsrc, "line": it.line, "item": key})
            self.emit(ind + "{ unimplemented!() }")
            self.externalised.append({"src": relsrc, "item": key, "new_item": True,
                                      "public": bool(re.match(r"\s*pub\b", it.text(it.attr_hi, it.body_open))),
                                      "reason": "new function without a contract (no side-car entry): left unverified, nothing assumed about it; its callers are externalised"})
            self.count("fallback_unknown_fn")
            return
        if c is None and container is not None and container.kind == "impl" and it.body_open is not None:
            # a method of a trait impl that overrides a default method of a crate-local trait whose method has a
            # contract: no side-car entry is needed - Verus checks the body against the inherited trait contract
            mt = re.match(r"\s*impl\s*(?:<[^>]*>)?\s*([\w:]+)(?:<[^{]*?>)?\s+for\s", container.header + " ")
            if mt:
                tkey = norm_key(f"trait {mt.group(1).split('::')[-1]} :: fn {it.name}")
                for sc in self.sidecars.values():
                    tc = sc.get(tkey)
                    if tc is not None and not tc.skip:
                        c = Contract(key, "inherited from " + tkey)
                        c.props = list(tc.props)
                        c.ret = tc.ret
                        self.count("inherited_trait_contract")
                        break
        if c is None:
            raise ExtractError(f"{relsrc}:{it.line}: function without side-car entry (unknown item): {key}")
        toks = it.toks
        sig_end = it.body_open if it.body_open is not None else it.hi - 1
        sig_toks = toks[it.attr_hi:sig_end]
        sig = it.text(it.attr_hi, sig_end).rstrip()
        # locate parameter list, return type, where clause (all at depth 0)
        idx = it.attr_hi
        while toks[idx].text != "fn":
            idx += 1
        j = idx + 1
        # skip name and generics to the '(' of the parameter list
        depth_angle = 0
        while True:
            t = toks[j]
            if t.kind == "punct" and t.text == "<":
                depth_angle += 1
            elif t.kind == "punct" and t.text == ">":
                depth_angle -= 1
            elif t.kind == "punct" and t.text == "(" and depth_angle == 0:
                break
            j += 1
        p_open = j
        p_close = match_close(toks, p_open)
        params = it.text(p_open + 1, p_close)
        pre = it.text(it.attr_hi, p_open)
        # after params: optional '-> Type', optional 'where ...'
        k = p_close + 1
        rest = it.text(k, sig_end).strip() if k < sig_end else ""
        ret = ""
        where = ""
        if rest:
            # split at top-level 'where'
            rt = [t for t in toks[k:sig_end]]
            wpos = None
            d = 0
            for q, t in enumerate(rt):
                if t.kind == "punct" and t.text in "([{<":
                    d += 1
                elif t.kind == "punct" and t.text in ")]}>":
                    if t.text == ">" and q > 0 and rt[q - 1].text == "-":
                        pass
                    else:
                        d -= 1
                elif t.kind == "ident" and t.text == "where" and d == 0:
                    wpos = q
                    break
            if wpos is not None:
                ret_part = it.src[rt[0].start:rt[wpos].start].strip()
                where = it.src[rt[wpos].start:rt[-1].end].strip()
            else:
                ret_part = rest
            if ret_part:
                if not ret_part.startswith("->"):
                    raise ExtractError(f"{relsrc}:{it.line}: cannot parse signature tail {ret_part!r}")
                ret = ret_part[2:].strip()
        if c.sig_override is not None:
            # R13b: the side-car replaces the signature (monomorphisation of a private generic at
            # its only instantiation); the real signature must be exactly the expected one
            real = norm(it.text(it.attr_hi, sig_end)).replace(",)", ")")
            if c.sig_expect is None or norm(c.sig_expect).replace(",)", ")") != real:
                raise ExtractError(f"{relsrc}: {key}: signature changed (anchor lost): {real}")
            m2 = re.match(r"(?s)(.*?)\((.*)\)\s*(?:->\s*(.*))?$", c.sig_override.strip())
            pre, params, ret = m2.group(1), m2.group(2), (m2.group(3) or "")
            where = ""
            self.count("R13_signature_monomorphised")
        mut_self = False
        if re.match(r"\s*mut\s+self\b", params):
            params = re.sub(r"^\s*mut\s+self\b", "self", params, count=1)
            mut_self = True
            self.count("R2_mut_self")
        # R22: contracts are written with the parameter names of the tree they were written for (side-car
        # `params:`); when the code renames a parameter the clauses are renamed with it
        actual_names = []
        for prm in split_top(params):
            mm = re.match(r"\s*(?:mut\s+)?(\w+)\s*:", prm)
            actual_names.append(mm.group(1) if mm and not re.match(r"\s*&?\s*(?:'\w+\s+)?(?:mut\s+)?self\b", prm) else None)
        actual_names = [n for n in actual_names if n is not None or True]
        self.param_names[(relsrc, key)] = [n for n in actual_names if n]
        if c.params is not None and c.sig_override is None:
            mine = [n for n in actual_names if n]
            if len(mine) == len(c.params) and mine != c.params:
                ren = {o: n for o, n in zip(c.params, mine) if o != n}
                if set(ren.values()) & (set(c.params) - set(ren.keys())):
                    raise ExtractError(f"{relsrc}: {key}: parameters renamed onto names the contract uses")
                c = self.rename_contract(c, ren)
                self.count("R22_param_renamed", len(ren))
            elif len(mine) != len(c.params):
                raise ExtractError(f"{relsrc}: {key}: parameter list changed (contract written for {c.params}, found {mine})")
        # R8: tuple patterns in parameters  `(a, b): T`  ->  `arg0: T` + `let (a, b) = arg0;`
        pre_lets = []
        plist = split_top(params)
        for n, prm in enumerate(plist):
            if prm.strip().startswith("("):
                ptoks = lex(prm)
                close = match_close(ptoks, next(i for i, t in enumerate(ptoks) if t.text == "("))
                pat = "".join(t.text for t in ptoks[:close + 1]).strip()
                rest_p = "".join(t.text for t in ptoks[close + 1:])
                plist[n] = f"arg{n}{rest_p}"
                pre_lets.append(f"let {pat} = arg{n};")
                self.count("R8_param_pattern")
        if pre_lets:
            params = ",".join(plist)
        # R11: `name: impl Trait` parameters -> a named generic parameter (so contracts can mention the type)
        if re.search(r":\s*impl\s", params):
            plist2 = split_top(params)
            gens = []
            for n, prm in enumerate(plist2):
                m = re.match(r"(\s*\w+\s*:\s*)impl\s+(.+?)\s*$", prm, re.S)
                if m:
                    gname = f"ImplArg{n}"
                    gens.append(f"{gname}: {m.group(2)}")
                    plist2[n] = f"{m.group(1)}{gname}"
                    self.count("R11_impl_trait_arg")
            params = ",".join(plist2)
            if pre.rstrip().endswith(">"):
                pre = pre.rstrip()[:-1] + ", " + ", ".join(gens) + ">"
            else:
                pre = pre.rstrip() + "<" + ", ".join(gens) + ">"
        retname = c.ret or "r"
        sig_out = pre + "(" + params + ")"
        if ret:
            sig_out += f" -> ({retname}: {ret})"
        if where:
            sig_out += "\n" + ind + "    " + where.rstrip(",") + ","
        info = {"src": relsrc, "line": it.line, "fn": key}
        forced = None
        body_text = None
        if it.body_open is not None:
            callee = next((n for n in sorted(getattr(self, "unknown_fns", ())) if re.search(r"\b" + re.escape(n) + r"\s*(::<[^>]*>)?\(", it.text(it.body_open, it.body_close + 1))), None)
            if f"{relsrc}::{key}" in self.force_external:
                forced = "outside the verified subset (verifier rejected a construct in this function)"
            elif callee is not None:
                forced = f"calls `{callee}`, a new function without a contract"
            else:
                try:
                    body_text = self.rewrite_body(it.text(it.body_open, it.body_close + 1), relsrc, key, c, mut_self)
                except ExtractError as e:
                    if not self.fallback:
                        raise
                    forced = f"outside the extractor's subset: {e}"
            if forced:
                self.externalised.append({"src": relsrc, "item": key, "reason": forced})
        for a in attrs:
            self.emit(ind + a)
        if c.external_body or forced:
            self.emit(ind + "#[verifier::external_body]")
        elif it.body_open is not None and not any("spinoff_prover" in a for a in attrs):
            # every function body is verified in a solver of its own (proof isolation, see lemmas)
            self.emit(ind + "#[verifier::spinoff_prover]")
        self.emit(ind + sig_out, info)
        clauses = list(c.clauses)
        self.emit_sig_clauses(clauses, ind + "    ", relsrc, key, c)
        rec = {"src": relsrc, "item": key, "line": it.line, "clauses": len(clauses), "props": c.props,
               "external_body": c.external_body, "macro_arg": getattr(self, "macro_arg", None)}
        if it.body_open is None:
            # trait method declaration without body
            self.out[-1] = self.out[-1]
            self.emit(ind + ";")
            rec["kind"] = "trait-decl"
            self.functions.append(rec)
            return
        body_first_line = toks[it.body_open].line
        if forced:
            rec["external_body"] = "BOUNDED-STAND-IN: " + forced
            rec["kind"] = "fn"
            rec["sha"] = hashlib.sha256(it.full_text().encode()).hexdigest()[:16]
            self.functions.append(rec)
            self.emit(ind + "{ unimplemented!() }", info)
            return
        body = body_text
        if pre_lets:
            body = "{ " + " ".join(pre_lets) + body[1:]
        if self.vacuity and not c.external_body:
            # reachability probe: with only the preconditions (and the broadcast axioms) in
            # scope, `false` must not be provable
            body = "{ assert(false);" + body[1:]
        h = hashlib.sha256(it.full_text().encode()).hexdigest()[:16]
        rec["sha"] = h
        rec["kind"] = "fn"
        self.functions.append(rec)
        self.emit_src_lines(ind + body, relsrc, body_first_line, key)

    def emit_sig_clauses(self, clauses, ind, relsrc, key, c):
        order = ["requires", "recommends", "ensures", "returns", "decreases", "no_unwind"]
        for kind in order:
            group = [cl for cl in clauses if cl.kind == kind]
            if group:
                self.emit_clauses(group, ind, relsrc, key)

    # -- body rewrites (token level)
    def rewrite_body(self, body, relsrc, key, c, mut_self):
        # comments inside a body are blanked (newlines kept, so line numbers are unchanged): the anchored
        # rewrites below are regular expressions over the code and must not depend on commentary
        toks0 = lex(body)
        if any(t.kind in ("comment", "doc") for t in toks0):
            body = "".join(("".join(ch if ch == "\n" else " " for ch in t.text) if t.kind in ("comment", "doc") else t.text) for t in toks0)
        # R22 (locals): a loop invariant has to mention the local it is about; the side-car names it through an
        # anchor (`bind NAME: /regex/`) so that renaming the local renames the clauses with it
        if c.binds:
            ren = {}
            for name, rx in c.binds:
                found = re.findall(rx, body)
                if len(found) != 1:
                    raise ExtractError(f"{relsrc}: {key}: bind anchor /{rx}/ matched {len(found)} times (anchor lost)")
                cur = found[0] if isinstance(found[0], str) else found[0][0]
                if cur != name:
                    ren[name] = cur
            if ren:
                c = self.rename_contract(c, ren)
                self.count("R22_local_renamed", len(ren))
        toks = lex(body)
        sig = [i for i, t in enumerate(toks) if t.kind not in ("ws", "comment", "doc")]
        edits = []   # (start, end, replacement)

        def tk(i):
            return toks[i]

        def recv_start(pos):
            """pos = index into sig of the '.' before the method name; return index into sig
            of the first token of the receiver (maximal postfix chain)."""
            q = pos - 1
            while True:
                t = toks[sig[q]]
                if t.kind == "punct" and t.text in ")]":
                    # jump to matching open
                    depth = 0
                    while True:
                        tt = toks[sig[q]]
                        if tt.kind == "punct" and tt.text in ")]":
                            depth += 1
                        elif tt.kind == "punct" and tt.text in "([":
                            depth -= 1
                            if depth == 0:
                                break
                        q -= 1
                    # include a call / index target before the bracket
                    if q - 1 >= 0 and toks[sig[q - 1]].kind == "ident":
                        q -= 1
                elif t.kind in ("ident", "num"):
                    pass
                else:
                    raise ExtractError(f"{relsrc}: {key}: cannot find receiver for rewrite")
                # continue if preceded by '.' (method chain) or '::' path
                if q - 1 >= 0 and toks[sig[q - 1]].text == "." and toks[sig[q - 1]].kind == "punct":
                    q -= 2
                    continue
                if q - 2 >= 0 and toks[sig[q - 1]].text == ":" and toks[sig[q - 2]].text == ":":
                    q -= 3
                    continue
                return q

        n = len(sig)
        for p in range(n):
            t = toks[sig[p]]
            nxt = toks[sig[p + 1]] if p + 1 < n else None
            # R3a  u16::from_be_bytes(  ->  u16_from_be_bytes(
            if t.kind == "ident" and t.text in ("u16", "i16", "u32", "i32", "u64", "i64") and p + 4 < n and toks[sig[p + 1]].text == ":" and toks[sig[p + 2]].text == ":" \
                    and toks[sig[p + 3]].text == "from_be_bytes" and toks[sig[p + 4]].text == "(":
                edits.append((t.start, toks[sig[p + 3]].end, f"{t.text}_from_be_bytes"))
                self.count("R3_from_be_bytes")
            # R3b  RECV.to_be_bytes()  ->  <ty>_to_be_bytes(RECV)
            if t.kind == "punct" and t.text == "." and nxt is not None and nxt.text == "to_be_bytes":
                if not (toks[sig[p + 2]].text == "(" and toks[sig[p + 3]].text == ")"):
                    raise ExtractError(f"{relsrc}: {key}: to_be_bytes with arguments")
                rs = recv_start(p)
                recv = body[toks[sig[rs]].start:t.start]
                ty = getattr(self, "macro_arg", None)
                if ty is not None and recv.strip() == "self":
                    rep = f"{ty}_to_be_bytes(*self)"
                else:
                    rep = f"u16_to_be_bytes({recv})"
                edits.append((toks[sig[rs]].start, toks[sig[p + 3]].end, rep))
                self.count("R3_to_be_bytes")
            # R4  RECV.write_all(ARGS) -> writer_write_all(RECV, ARGS)
            if t.kind == "punct" and t.text == "." and nxt is not None and nxt.text == "write_all":
                rs = recv_start(p)
                recv = body[toks[sig[rs]].start:t.start]
                edits.append((toks[sig[rs]].start, toks[sig[p + 2]].end, f"writer_write_all({recv}, "))
                self.count("R4_write_all")
        # R10  V[A..B].copy_from_slice(SRC)  ->  vec_copy_range(&mut V, A, B, SRC)   (Vec + two-sided range)
        for p in range(n):
            t = toks[sig[p]]
            nxt = toks[sig[p + 1]] if p + 1 < n else None
            if t.kind == "punct" and t.text == "." and nxt is not None and nxt.text == "copy_from_slice" and toks[sig[p - 1]].text == "]":
                # find the matching '[' of the index
                depth = 0
                q = p - 1
                while True:
                    tt = toks[sig[q]]
                    if tt.kind == "punct" and tt.text in ")]":
                        depth += 1
                    elif tt.kind == "punct" and tt.text in "([":
                        depth -= 1
                        if depth == 0:
                            break
                    q -= 1
                idx_open = q
                idx_text = body[toks[sig[idx_open]].end:toks[sig[p - 1]].start]
                # split at top-level '..'
                itoks = lex(idx_text)
                d = 0
                cut = None
                for a_i in range(len(itoks) - 1):
                    if itoks[a_i].kind == "punct" and itoks[a_i].text in "([{":
                        d += 1
                    elif itoks[a_i].kind == "punct" and itoks[a_i].text in ")]}":
                        d -= 1
                    elif d == 0 and itoks[a_i].text == "." and itoks[a_i + 1].text == "." and itoks[a_i].kind == "punct":
                        cut = a_i
                        break
                if cut is None:
                    continue
                lo = "".join(x.text for x in itoks[:cut]).strip()
                hi = "".join(x.text for x in itoks[cut + 2:]).strip()
                if not lo or not hi or hi.startswith("="):
                    continue   # `[..]`, `[a..]`, `[..b]`: handled by vstd (arrays / full ranges)
                rs = recv_start(idx_open + 0) if False else None
                # receiver: the postfix chain before '['
                r0 = idx_open - 1
                if toks[sig[r0]].kind != "ident":
                    raise ExtractError(f"{relsrc}: {key}: copy_from_slice receiver too complex")
                while r0 - 2 >= 0 and toks[sig[r0 - 1]].text == "." and toks[sig[r0 - 2]].kind == "ident":
                    r0 -= 2
                recv = body[toks[sig[r0]].start:toks[sig[idx_open]].start]
                edits.append((toks[sig[r0]].start, toks[sig[p + 2]].end, f"vec_copy_range(&mut {recv}, {lo}, {hi}, "))
                self.count("R10_vec_range_copy")
        # apply edits right to left; they must not overlap
        edits.sort()
        for a, b in zip(edits, edits[1:]):
            if a[1] > b[0]:
                raise ExtractError(f"{relsrc}: {key}: overlapping rewrites")
        for s, e, rep in reversed(edits):
            if "\n" in body[s:e]:
                # keep line structure: put the newlines back after the replacement
                rep = rep + "\n" * body[s:e].count("\n")
            body = body[:s] + rep + body[e:]
        # R5 closure parameter patterns |&c| EXPR  ->  |c_ref: &u8| { let c = *c_ref; EXPR }
        body = self.apply_regex_rewrites(body, relsrc, key, c)
        if mut_self:
            toks = lex(body)
            out = []
            for t in toks:
                out.append("this" if (t.kind == "ident" and t.text == "self") else t.text)
            body = "".join(out)
            # body starts with '{'
            body = "{ let mut this = self;" + body[1:]
        # R12: `for PAT in EXPR { BODY }` -> explicit `loop { match iter_next(..) { .. } }` (Rust's own
        # desugaring), applied only where the side-car asks for it (generic iterators)
        if c.mode == "desugar-for":
            body = self.desugar_for(body, relsrc, key)
        # loops
        if c.loops:
            body = self.insert_loop_clauses(body, relsrc, key, c)
        # hints
        for mode, rx, text in c.hints:
            lines = body.split("\n")
            hits = [i for i, ln in enumerate(lines) if re.search(rx, ln)]
            if len(hits) != 1:
                raise ExtractError(f"{relsrc}: {key}: hint anchor /{rx}/ matched {len(hits)} lines (anchor lost)")
            h = hits[0]
            one = " ".join(x.strip() for x in text.split("\n"))
            if mode == "hint-before":
                # keep line numbering: put the hint on the same line, in front
                lead = re.match(r"\s*", lines[h]).group(0)
                lines[h] = lead + one + " " + lines[h].lstrip()
            else:
                lines[h] = lines[h] + " " + one
            body = "\n".join(lines)
            self.count("hint_inserted")
        return body

    def desugar_for(self, body, relsrc, key):
        toks = lex(body)
        out = body
        fors = [i for i, t in enumerate(toks) if t.kind == "ident" and t.text == "for"]
        if len(fors) != 1:
            raise ExtractError(f"{relsrc}: {key}: desugar-for expects exactly one for loop, found {len(fors)}")
        i = fors[0]
        j = i + 1
        in_pos = None
        while j < len(toks):
            tt = toks[j]
            if tt.kind == "punct" and tt.text in "([":
                j = match_close(toks, j)
            elif tt.kind == "ident" and tt.text == "in" and in_pos is None:
                in_pos = j
            elif tt.kind == "punct" and tt.text == "{":
                break
            j += 1
        if in_pos is None:
            raise ExtractError(f"{relsrc}: {key}: malformed for loop")
        close = match_close(toks, j)
        pat = body[toks[i].end:toks[in_pos].start].strip()
        expr = body[toks[in_pos].end:toks[j].start].strip()
        inner = body[toks[j].end:toks[close].start]
        new = (f"{{ let mut iter__ = iter_begin({expr}); loop {{ match iter_next(&mut iter__) {{ None => {{ break; }} Some({pat}) => {{"
               f"{inner}}} }} }} }}")
        self.count("R12_for_desugar")
        return body[:toks[i].start] + new + body[toks[close].end:]

    def apply_regex_rewrites(self, body, relsrc, key, c):
        for name, rx, rep in REGEX_REWRITES:
            def _sub(m, rep=rep):
                out = m.expand(rep)
                return out + "\n" * m.group(0).count("\n")   # keep the line structure
            body, n = re.subn(rx, _sub, body)
            self.count(name, n)
        # function-specific anchored rewrites; entries sharing a name are alternatives: exactly one
        # match in total per name
        hits = {}
        if c.mode == "display-fmt":
            body = self.rewrite_write_macro(body, relsrc, key)
        for name, rx, rep in c.rewrites:
            body, n = re.subn(rx, lambda m, rep=rep: m.expand(rep) + "\n" * m.group(0).count("\n"), body)
            hits[name] = hits.get(name, 0) + n
        for name, n in hits.items():
            if n != 1:
                raise ExtractError(f"{relsrc}: {key}: function-specific rewrite {name} matched {n} times (anchor lost)")
            self.count(name)
        body = self.annotate_closures(body, relsrc, key, c)
        return body

    def lit_const(self, lit_body):
        """R20/R1: a string literal used for formatting becomes a named constant whose byte value the
        extractor computes from the literal and hands to Verus as an assumed ensures"""
        if not hasattr(self, "lit_consts"):
            self.lit_consts = {}
        if lit_body not in self.lit_consts:
            self.lit_consts[lit_body] = f"FMT_LIT_{len(self.lit_consts) + 1}"
        return self.lit_consts[lit_body]

    def emit_lit_consts(self, ind):
        for lit_body, name in getattr(self, "lit_consts", {}).items():
            bs = eval('"' + lit_body + '"').encode("utf-8")
            self.emit(f"{ind}#[verifier::external_body]")
            self.emit(f"{ind}pub exec const {name}: &'static str")
            self.emit(f"{ind}    ensures sb({name}) =~= seq![" + ", ".join(f"{b}u8" for b in bs) + "]", {"generated": "R20 literal"})
            self.emit(f'{ind}{{ "{lit_body}" }}')
        self.lit_consts = {}

    def rewrite_write_macro(self, body, relsrc, key):
        """R20: `write!(f, "lit{}lit{}..", a, b, ..)` -> `{ fmt_lit(f, "lit")?; fmt_arg(f, &(a))?; ..; Ok(()) }`
        and `f.write_str(x)` -> `fmt_lit(f, x)`: the meaning of a format string whose only holes are
        plain `{}` (pieces and arguments written in order, stopping at the first error)."""
        toks = lex(body)
        edits = []
        i = 0
        while i < len(toks):
            t = toks[i]
            if t.kind == "ident" and t.text == "write" and i + 2 < len(toks) and toks[i + 1].text == "!" and toks[i + 2].text == "(":
                close = match_close(toks, i + 2)
                inner = body[toks[i + 2].end:toks[close].start]
                args = split_top(inner)
                if len(args) < 2:
                    raise ExtractError(f"{relsrc}: {key}: write! with too few arguments")
                fexpr = args[0].strip()
                lit = args[1].strip()
                m = re.fullmatch(r'"((?:[^"\\]|\\.)*)"', lit)
                if not m:
                    raise ExtractError(f"{relsrc}: {key}: write! format is not a string literal")
                fmt = m.group(1)
                exprs = [a.strip() for a in args[2:] if a.strip()]
                pieces = []
                cur = ""
                j = 0
                holes = 0
                while j < len(fmt):
                    ch = fmt[j]
                    if fmt.startswith("{{", j):
                        cur += "{"; j += 2
                    elif fmt.startswith("}}", j):
                        cur += "}"; j += 2
                    elif fmt.startswith("{}", j):
                        pieces.append(("lit", cur)); cur = ""
                        pieces.append(("arg", holes)); holes += 1; j += 2
                    elif ch == "{" and re.match(r"\{:[#?xXobeE0-9<>^+.]*\}", fmt[j:]):
                        # a positional hole with a format spec ({:?}, {:#X}, ..): the argument is
                        # still evaluated and handed to std's printer in order; what is printed is
                        # left unspecified (fmt_arg_styled)
                        mm = re.match(r"\{:[#?xXobeE0-9<>^+.]*\}", fmt[j:])
                        pieces.append(("lit", cur)); cur = ""
                        pieces.append(("styled", holes)); holes += 1; j += len(mm.group(0))
                    elif ch in "{}":
                        raise ExtractError(f"{relsrc}: {key}: write! format uses a named / indexed hole (unsupported)")
                    else:
                        cur += ch; j += 1
                pieces.append(("lit", cur))
                if holes != len(exprs):
                    raise ExtractError(f"{relsrc}: {key}: write! holes and arguments differ")
                stmts = []
                for kind, v in pieces:
                    if kind == "lit":
                        if v:
                            stmts.append(f'fmt_lit({fexpr}, {self.lit_const(v)})?;')
                    elif kind == "styled":
                        stmts.append(f"fmt_arg_styled({fexpr}, &({exprs[v]}))?;")
                    else:
                        stmts.append(f"fmt_arg({fexpr}, &({exprs[v]}))?;")
                rep = "{ " + " ".join(stmts) + " Ok(()) }"
                edits.append((t.start, toks[close].end, rep))
                self.count("R20_write_macro")
                i = close
            i += 1
        for s_, e_, rep in reversed(edits):
            nl = body[s_:e_].count("\n")
            body = body[:s_] + rep + ("\n" * nl) + body[e_:]
        def _ws(m):
            return "fmt_lit(" + m.group(1) + ", " + self.lit_const(m.group(2)[1:-1]) + ")"
        body, n1 = re.subn(r'\b(\w+)\.write_str\(\s*("(?:[^"\\]|\\.)*")\s*\)', _ws, body)
        body, n2 = re.subn(r"\b(\w+)\.write_str\(", r"fmt_lit(\1, ", body)
        self.count("R20_write_str", n1 + n2)
        return body

    def annotate_closures(self, body, relsrc, key, c):
        """R14: closures get an explicit specification so that callers of map_err / filter /
        position can reason about them; the closure BODY stays the real text and is verified
        against that specification.
          * `|x| Type::Variant(..)`  ->  `|x| -> (ret__: Type) ensures ret__ == Type::Variant(..) { Type::Variant(..) }`
          * other closures: header supplied by the side-car (`closure N expect <params>`)"""
        toks = lex(body)
        sig = [i for i, t in enumerate(toks) if t.kind not in ("ws", "comment", "doc")]
        edits = []
        ordinal = 0
        p = 0
        n = len(sig)
        while p < n:
            t = toks[sig[p]]
            prev = toks[sig[p - 1]] if p > 0 else None
            if t.kind == "punct" and t.text == "|" and prev is not None and prev.kind == "punct" and prev.text in "(,={;":
                # closure start; find closing '|'
                q = p + 1
                while not (toks[sig[q]].kind == "punct" and toks[sig[q]].text == "|"):
                    q += 1
                params = body[toks[sig[p]].start:toks[sig[q]].end]
                if toks[sig[q + 1]].text == "-" and toks[sig[q + 2]].text == ">":
                    # already carries an explicit specification (introduced by a rewrite)
                    p = q + 1
                    continue
                # closure body: expression up to the matching ')' or ',' at depth 0
                b0 = q + 1
                depth = 0
                e = b0
                while e < n:
                    tt = toks[sig[e]]
                    if tt.kind == "punct" and tt.text in "([{":
                        depth += 1
                    elif tt.kind == "punct" and tt.text in ")]}":
                        if depth == 0:
                            break
                        depth -= 1
                    elif tt.kind == "punct" and tt.text == "," and depth == 0:
                        break
                    e += 1
                btext = body[toks[sig[b0]].start:toks[sig[e - 1]].end]
                ordinal += 1
                if ordinal in c.closures:
                    expect, lines = c.closures[ordinal]
                    # the expected parameter text is a regex (identifiers may be renamed); groups may
                    # be referred to as \\1.. in the specification lines
                    mm = re.fullmatch(expect, norm(params))
                    if not mm:
                        raise ExtractError(f"{relsrc}: {key}: closure {ordinal} parameters changed (anchor lost): {params}")
                    header = mm.expand(lines[0].strip())
                    pre = " ".join(mm.expand(x.strip()) for x in lines[1:])
                    rep = f"{header} {{ {pre} {btext} }}"
                    self.count("R14_closure_spec_from_sidecar")
                else:
                    m = re.match(r"([A-Z]\w*)::\w+", btext.strip())
                    if not m:
                        raise ExtractError(f"{relsrc}: {key}: closure {ordinal} `{params} {btext[:40]}` has no specification (side-car entry needed)")
                    flat = " ".join(btext.split())
                    rep = f"{params} -> (ret__: {m.group(1)}) ensures ret__ == {flat} {{ {btext} }}"
                    self.count("R14_closure_ctor_ensures")
                edits.append((toks[sig[p]].start, toks[sig[e - 1]].end, rep))
                p = e
                continue
            p += 1
        for s_, e_, rep in reversed(edits):
            nl = body[s_:e_].count("\n") - rep.count("\n")
            body = body[:s_] + rep + ("\n" * max(nl, 0)) + body[e_:]
        return body

    def insert_loop_clauses(self, body, relsrc, key, c):
        toks = lex(body)
        loops = []
        for i, t in enumerate(toks):
            if t.kind == "ident" and t.text in ("while", "for", "loop"):
                # 'for' in 'impl X for Y' cannot occur inside a body; closures `for<'a>` not used
                j = i + 1
                while j < len(toks):
                    tt = toks[j]
                    if tt.kind == "punct" and tt.text in "([":
                        j = match_close(toks, j)
                    elif tt.kind == "punct" and tt.text == "{":
                        break
                    j += 1
                loops.append((i, j))
        for n in c.loops:
            if n < 1 or n > len(loops):
                raise ExtractError(f"{relsrc}: {key}: loop {n} not found (anchor lost; function has {len(loops)} loops)")
        if len(loops) != len(c.loops):
            raise ExtractError(f"{relsrc}: {key}: function has {len(loops)} loops, side-car describes {len(c.loops)}")
        out = body
        for n in sorted(c.loops, reverse=True):
            i, j = loops[n - 1]
            pos = toks[j].start
            parts = []
            last = None
            for cl in c.loops[n]:
                if cl.kind != last:
                    parts.append(cl.kind)
                    last = cl.kind
                parts.append(" ".join(x.strip() for x in cl.text.split("\n")).rstrip(",") + ",")
                self.clauses.append({"id": cl.cid, "tags": cl.tags, "kind": "loop-" + cl.kind, "fn": key, "src": relsrc, "text": cl.text.strip()})
            out = out[:pos] + " " + " ".join(parts) + " " + out[pos:]
            self.count("loop_contract_inserted")
        return out


def split_top(text):
    """split at top-level commas"""
    toks = lex(text)
    out, cur, depth = [], [], 0
    for t in toks:
        if t.kind == "punct" and t.text in "([{<":
            depth += 1
        elif t.kind == "punct" and t.text in ")]}>":
            depth -= 1
        if t.kind == "punct" and t.text == "," and depth == 0:
            out.append("".join(cur))
            cur = []
        else:
            cur.append(t.text)
    if "".join(cur).strip():
        out.append("".join(cur))
    return out


REGEX_REWRITES = [
    # R9: std::cmp::min on usize -> prelude wrapper with a specification (generic Ord has no spec in vstd)
    ("R9_cmp_min", r"\bstd::cmp::min\(", "usize_min("),
    ("R9_cmp_min", r"(?<![\w:.])min\(", "usize_min("),
    # R13a: the split iterator of v1::parse_line -> prelude wrapper `Parts` (same separator closure, anchored)
    ("R13_splitn_peekable", r"(\w+)\s*\.splitn\(\s*(\w+)\s*,\s*\|c\|\s*c\s*==\s*(\w+)\s*\|\|\s*c\s*==\s*(\w+)\s*\)\s*\.peekable\(\)", r"Parts::new(\1, \2, \3, \4)"),
    # R14a: enum constructor used as a function value -> closure (Verus does not support constructor values)
    ("R14_ctor_as_fn", r"\.map_err\(\s*([A-Z]\w*::[A-Z]\w*)\s*\)", r".map_err(|e__| \1(e__))"),
    # R15: `x.iter().position(f)` -> prelude wrapper with the obvious specification
    ("R15_iter_position", r"(\w+)\.iter\(\)\.position\(", r"slice_position(\1, "),
    # R16: ToString on a Cow<str> field
    ("R16_cow_to_string", r"\b(self\.header)\.to_string\(\)", r"cow_str_to_string(&\1)"),
    # R13c: call sites of the monomorphised parse_addresses
    ("R13_turbofish", r"parse_addresses::<(\w+),\s*_>", r"parse_addresses::<\1>"),
]


def lemma_vacuity(txt, name):
    """vacuity variant of a lemma file: every `proof fn` body starts with `assert(false)`,
    so a lemma that still verifies has a contradictory precondition or an inconsistent
    context (line structure preserved)."""
    toks = lex(txt)
    edits = []
    i = 0
    n = len(toks)
    while i < n:
        t = toks[i]
        if t.kind == "ident" and t.text == "proof":
            j = i + 1
            while toks[j].kind in ("ws", "comment", "doc"):
                j += 1
            if toks[j].text == "fn":
                # find body open: first '{' at depth 0 after the parameter list
                k = j
                ens = None
                while k < n:
                    tk = toks[k]
                    if tk.kind == "punct" and tk.text in "([":
                        k = match_close(toks, k)
                    elif tk.kind == "ident" and tk.text == "ensures" and ens is None:
                        ens = k
                    elif tk.kind == "punct" and tk.text == "{":
                        # the body brace is the first token on its line (lemma-file convention); a brace
                        # inside the specification (`match x {`, `({`) is skipped with its block
                        ls = txt.rfind("\n", 0, tk.start) + 1
                        if txt[ls:tk.start].strip() == "":
                            break
                        k = match_close(toks, k)
                    k += 1
                if k >= n:
                    raise ExtractError(f"{name}: cannot find body of proof fn")
                edits.append((toks[k].start, toks[k].end, "{ assert(false);"))
                i = match_close(toks, k)
        i += 1
    for s_, e_, rep in reversed(edits):
        txt = txt[:s_] + rep + txt[e_:]
    return txt


def generate(repo, cdir, vacuity, force_external=(), fallback=False):
    g = Gen(repo, cdir, vacuity, force_external, fallback)
    g.emit("// GENERATED by /verif/extract/extract.py from the working tree of the repository.")
    g.emit("// Function bodies are copied from the sources; contracts come from contracts/src/*.contract.")
    g.emit("#![feature(pattern)]")
    g.emit("#![allow(unused, dead_code, non_camel_case_types, unused_imports, unused_variables, unused_mut)]")
    g.emit("use vstd::prelude::*;")
    g.emit("verus! { global size_of usize == 8; }  // 64-bit target (usize/isize encoders, capacity arithmetic)")
    for name in sorted(os.listdir(cdir)):
        p = os.path.join(cdir, name)
        if name == "prelude.rs":
            with open(p) as f:
                g.emit(f.read(), {"file": "contracts/prelude.rs"})
    # spec files go into `mod spec`
    g.emit("pub mod spec {")
    g.emit("#[allow(unused_imports)] use vstd::prelude::*;")
    g.emit("#[allow(unused_imports)] use crate::prelude::*;")
    g.emit("verus! {")
    g.emit("broadcast use crate::prelude::prelude_axioms;")
    for name in sorted(os.listdir(cdir)):
        if name.startswith("spec_") and name.endswith(".rs"):
            with open(os.path.join(cdir, name)) as f:
                txt = f.read()
            first = len(g.out) + 1
            for k, ln in enumerate(txt.split("\n")):
                g.out.append(ln)
                g.linemap.append({"file": "contracts/" + name, "line": k + 1})
    g.emit("} // verus!")
    g.emit("} // mod spec")
    g.module("lib.rs", "", "", 0, is_root=True)
    # lemma files
    g.emit("pub mod lemmas {")
    g.emit("#[allow(unused_imports)] use vstd::prelude::*;")
    g.emit("#[allow(unused_imports)] use crate::prelude::*;")
    g.emit("#[allow(unused_imports)] use crate::spec::*;")
    g.emit("verus! {")
    g.emit("broadcast use crate::prelude::prelude_axioms;")
    for name in sorted(os.listdir(cdir)):
        if name.startswith("lemmas_") and name.endswith(".rs"):
            with open(os.path.join(cdir, name)) as f:
                txt = f.read()
            if vacuity:
                txt = lemma_vacuity(txt, name)
            # every lemma is proved in a solver of its own (spinoff_prover): a lemma's proof must not
            # depend on what the solver learnt from its neighbours (this is what made proofs flip
            # with the solver seed when lemmas were added); the attribute goes on the same line
            txt = re.sub(r"(?m)^([ \t]*)(pub (?:broadcast )?proof fn )", r"\1#[verifier::spinoff_prover] \2", txt)
            for k, ln in enumerate(txt.split("\n")):
                g.out.append(ln)
                g.linemap.append({"file": "contracts/" + name, "line": k + 1})
    g.emit("} // verus!")
    g.emit("} // mod lemmas")
    g.emit("fn main() {}")
    return g


def main():
    ap = argparse.ArgumentParser()
    ap.add_argument("--repo", default="/repo")
    ap.add_argument("--contracts", default=os.path.join(os.path.dirname(os.path.abspath(__file__)), "..", "contracts"))
    ap.add_argument("--out", required=True)
    ap.add_argument("--vacuity", action="store_true")
    ap.add_argument("--fallback", action="store_true", help="a function the extractor cannot handle is emitted external_body (bounded stand-in decided by the driver)")
    ap.add_argument("--external-body", default="", help="';'-separated src::key list of functions to leave unverified")
    ap.add_argument("--dump-params", default="", help="write {src::key: [parameter names]} of the current tree to this file (used to fill the side-cars' `params:` lines)")
    a = ap.parse_args()
    try:
        fe = [x for x in a.external_body.split(';') if x]
        g = generate(a.repo, a.contracts, False, fe, a.fallback)
        os.makedirs(os.path.dirname(os.path.abspath(a.out)), exist_ok=True)
        with open(a.out, "w") as f:
            f.write("\n".join(g.out) + "\n")
        meta = {
            "tree_sha256": g.hash.hexdigest(),
            "rewrites": g.rewrites,
            "functions": g.functions,
            "clauses": g.clauses,
            "skipped": g.skipped,
            "externalised": g.externalised,
            "items": g.items,
            "linemap": g.linemap,
        }
        with open(a.out + ".map.json", "w") as f:
            json.dump(meta, f)
        if a.dump_params:
            with open(a.dump_params, "w") as f:
                json.dump({f"{k[0]}::{k[1]}": v for k, v in g.param_names.items()}, f, indent=1)
        if a.vacuity:
            gv = generate(a.repo, a.contracts, True, fe, a.fallback)
            with open(a.out.replace(".rs", "_vacuity.rs"), "w") as f:
                f.write("\n".join(gv.out) + "\n")
            with open(a.out.replace(".rs", "_vacuity.rs") + ".map.json", "w") as f:
                json.dump({"linemap": gv.linemap, "functions": gv.functions}, f)
    except ExtractError as e:
        print(f"EXTRACT-ERROR: {e}", file=sys.stderr)
        sys.exit(2)


if __name__ == "__main__":
    main()
