#!/usr/bin/env python3
"""keep_neutral.py <worktree> <Cxx> <id>: store a behaviour-changing edit that a sub-agent argues leaves property Cxx
TRUE (seeded/neutral/<id>/) and run the check of THAT property on a scratch copy: VIOLATION would be a false alarm
(unless the agent's argument is wrong - to be judged by reading it).  Other properties may well be broken by it."""
import json, os, shutil, subprocess, sys, tempfile, time
wt, prop, name = sys.argv[1], sys.argv[2], sys.argv[3]
dst = f"/verif/seeded/neutral/{name}"
os.makedirs(dst, exist_ok=True)
shutil.copy(f"{wt}/patch.diff", f"{dst}/patch.diff")
if os.path.exists(f"{wt}/tests/behaviour_demo.rs"):
    shutil.copy(f"{wt}/tests/behaviour_demo.rs", f"{dst}/behaviour_demo.rs")
meta_txt = open(f"{wt}/meta.txt").read() if os.path.exists(f"{wt}/meta.txt") else ""
S = tempfile.mkdtemp(prefix="neutral.")
res = {}
try:
    os.makedirs(S + "/repo")
    for x in ("src", "Cargo.toml", "Cargo.lock"):
        (shutil.copytree if x == "src" else shutil.copy)(f"/repo/{x}", f"{S}/repo/{x}")
    subprocess.run(["patch", "-p1", "-s", "-i", f"{dst}/patch.diff"], cwd=S + "/repo", check=True)
    for n in range(1, 21):
        p = f"C{n:02d}"
        r = subprocess.run(["/verif/bin/check", p], capture_output=True, text=True, env=dict(os.environ, VERIF_REPO=S + "/repo"))
        last = [l for l in r.stdout.split("\n") if l.startswith(("OK", "VIOLATION", "UNDECIDED"))]
        last = last[-1] if last else ""
        res[p] = "VIOLATION" if last.startswith("VIOLATION") else ("OK-BOUNDED" if "BOUNDED" in last else ("OK" if last.startswith("OK") else "UNDECIDED"))
finally:
    shutil.rmtree(S, ignore_errors=True)
meta = {"keeps_property": prop, "origin": "independent sub-agent asked for a behaviour change that the property does not forbid",
        "agent_argument": meta_txt.strip(), "check_results": res, "target_result": res.get(prop),
        "false_alarm_candidate": res.get(prop) == "VIOLATION", "recorded_at": time.strftime("%Y-%m-%dT%H:%M:%SZ", time.gmtime())}
json.dump(meta, open(f"{dst}/meta.json", "w"), indent=1)
print(name, "keeps", prop, "->", res.get(prop), "| flagged elsewhere:", sorted(p for p, v in res.items() if v == "VIOLATION" and p != prop))
