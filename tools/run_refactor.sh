#!/bin/bash
# run_refactor.sh <diff>: apply a behaviour-preserving edit, run all checks, restore. Any VIOLATION is a false alarm.
P=$1
cd /verif
export VERIF_EVIDENCE_SCRATCH=1   # runs against a patched /repo never touch evidence/
git -C /repo apply "$P" || { echo "patch does not apply"; exit 2; }
for p in C01 C02 C03 C04 C05 C06 C07 C08 C09 C10 C11 C12 C13 C14 C15 C16 C17 C18 C19 C20; do
  out=$(bin/check $p 2>&1 | grep -E "^(OK|VIOLATION|UNDECIDED)" | tail -1 | cut -c1-220)
  echo "$p: $out"
done | sort | awk -F: '{print $2}' | sed 's/property=C[0-9]*//' | sort | uniq -c
git -C /repo checkout -- .
