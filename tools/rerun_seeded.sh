#!/bin/bash
# rerun_seeded.sh <id>...: re-run stored seeded changes against the current machinery on a scratch copy of
# /repo (VERIF_REPO) and refresh seeded/<id>/meta.json "check_results"
cd /verif
for id in "$@"; do
  d=seeded/$id
  S=$(mktemp -d /tmp/seedrun.XXXX)
  mkdir -p $S/repo && cp -r /repo/src /repo/Cargo.toml /repo/Cargo.lock $S/repo/
  (cd $S/repo && patch -p1 -s < /verif/$d/patch.diff) || { echo "$id: patch failed"; rm -rf $S; continue; }
  python3 - "$id" "$S/repo" <<'PY'
import json, subprocess, sys, os
sid, repo = sys.argv[1], sys.argv[2]
mp = f"/verif/seeded/{sid}/meta.json"
meta = json.load(open(mp))
res = {}
for n in range(1, 21):
    p = f"C{n:02d}"
    r = subprocess.run(["/verif/bin/check", p], capture_output=True, text=True, env=dict(os.environ, VERIF_REPO=repo))
    last = [l for l in r.stdout.split("\n") if l.startswith(("OK", "VIOLATION", "UNDECIDED"))]
    last = last[-1] if last else ""
    res[p] = "VIOLATION" if last.startswith("VIOLATION") else ("OK" if last.startswith("OK") else "UNDECIDED")
    if res[p] == "UNDECIDED": print("   ", last[:200])
meta["check_results"] = res
meta["detected_by_target_check"] = res.get(meta["breaks_property"]) == "VIOLATION"
meta["flagged_by"] = sorted(p for p, v in res.items() if v == "VIOLATION")
json.dump(meta, open(mp, "w"), indent=1)
print(sid, "target", meta["breaks_property"], "->", res.get(meta["breaks_property"]), "flagged_by", meta["flagged_by"])
PY
  rm -rf $S
done
