#!/bin/bash
# confirm_seeded.sh <worktree>: existing tests pass with the change; demo fails with it and passes without it
set -u
W=$1
cd "$W" || exit 2
export CARGO_TARGET_DIR=$W/target CARGO_NET_OFFLINE=true
git diff --quiet -- src && { echo "no src change in $W"; exit 2; }
echo "--- lib+doc tests with change"
cargo test --offline --lib 2>&1 | grep -E "^test result" ; cargo test --offline --doc 2>&1 | grep -E "^test result"
echo "--- demo with change (must fail)"
cargo test --offline --test seeded_demo 2>&1 | grep -E "^test result|panicked" | head -5
git diff -- src > /tmp/confirm_patch.$$.diff
git checkout -q -- src
echo "--- demo without change (must pass)"
cargo test --offline --test seeded_demo 2>&1 | grep -E "^test result"
git apply /tmp/confirm_patch.$$.diff && rm /tmp/confirm_patch.$$.diff
