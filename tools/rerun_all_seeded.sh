#!/bin/bash
# Re-run every stored seeded change against the current machinery, on scratch copies of /repo
# (VERIF_REPO), and refresh seeded/<id>/meta.json "check_results".  About 3-5 minutes per change.
cd /verif
exec tools/rerun_seeded.sh $(ls -d seeded/C*/ | xargs -n1 basename)
