#!/bin/bash
# why_flagged.sh <patch.diff> <Cxx>... : show, for a change, why each given property's check answers what it answers
S=$(/verif/tools/scratch_apply.sh "$1") || exit 1; shift
for p in "$@"; do echo "--- $p"; VERIF_REPO=$S/repo /verif/bin/check $p 2>&1 | grep -E "^(failed obligation|failing input|VIOLATION|UNDECIDED|OK)" | cut -c1-420; done
rm -rf $S
