#!/usr/bin/env python3
"""cross_audit.py: for every stored seeded change M and every property Q whose check answered OK on M, run the
finder sweep of Q on M's tree.  A mismatch means the real code of M disagrees with the specification on an input
of Q's sweep although Q's check verified: a candidate for a missing property tag (the sweeps of several
properties share inputs, so every candidate needs a look).  Advisory; prints one line per candidate."""
import concurrent.futures, glob, json, os, shutil, subprocess, sys, tempfile
sys.path.insert(0, "/verif/driver")

def one(sid):
    meta = json.load(open(f"/verif/seeded/{sid}/meta.json"))
    S = tempfile.mkdtemp(prefix="xaudit.")
    out = []
    try:
        os.makedirs(S + "/repo")
        for x in ("src", "Cargo.toml", "Cargo.lock"):
            (shutil.copytree if x == "src" else shutil.copy)(f"/repo/{x}", f"{S}/repo/{x}")
        subprocess.run(["patch", "-p1", "-s", "-i", f"/verif/seeded/{sid}/patch.diff"], cwd=S + "/repo", check=True)
        code = ("import sys,json; sys.path.insert(0,'/verif/driver'); import finder\n"
                "res={}\n"
                "for q in sys.argv[1:]:\n"
                "    r=finder.search(q)\n"
                "    res[q]=None if r is None else (r.get('found'), (r.get('case') or '')[:80], (r.get('expected') or '')[:80], (r.get('actual') or '')[:80])\n"
                "print(json.dumps(res))\n")
        oks = [q for q, v in sorted(meta["check_results"].items()) if v == "OK"]
        p = subprocess.run([sys.executable, "-c", code] + oks, capture_output=True, text=True, env=dict(os.environ, VERIF_REPO=S + "/repo"), timeout=1800)
        res = json.loads(p.stdout.strip().split("\n")[-1])
        for q, r in res.items():
            if r and r[0]:
                out.append(f"{sid} (breaks {meta['breaks_property']}): {q} answered OK but its sweep disagrees: case={r[1]} expected={r[2]} actual={r[3]}")
    except Exception as e:
        out.append(f"{sid}: audit failed: {e}")
    finally:
        shutil.rmtree(S, ignore_errors=True)
    return out

ids = sys.argv[1:] or sorted(os.path.basename(os.path.dirname(f)) for f in glob.glob("/verif/seeded/C*/meta.json"))
with concurrent.futures.ThreadPoolExecutor(max_workers=4) as ex:
    for lines in ex.map(one, ids):
        for l in lines:
            print(l, flush=True)
print("done", len(ids))
