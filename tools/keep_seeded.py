#!/usr/bin/env python3
"""keep_seeded.py <worktree> <target-property> <name>: store a confirmed seeded change under
/verif/seeded/<name>/ and record which checks flag it (runs every check against /repo with the
patch applied, then restores /repo)."""
import json, os, shutil, subprocess, sys, time
wt, prop, name = sys.argv[1], sys.argv[2], sys.argv[3]
dst = f"/verif/seeded/{name}"
os.makedirs(dst, exist_ok=True)
shutil.copy(f"{wt}/patch.diff", f"{dst}/patch.diff")
shutil.copy(f"{wt}/tests/seeded_demo.rs", f"{dst}/seeded_demo.rs")
meta_txt = open(f"{wt}/meta.txt").read() if os.path.exists(f"{wt}/meta.txt") else ""
conf = subprocess.run(["/verif/tools/confirm_seeded.sh", wt], capture_output=True, text=True).stdout
res = {}   # filled in by tools/rerun_seeded.sh below (scratch copy of /repo, VERIF_REPO: /repo itself is not touched)
meta = {
    "breaks_property": prop,
    "origin": "independent sub-agent given only the property text and a scratch worktree of /repo",
    "what_it_needs_to_manifest": meta_txt.strip(),
    "confirmed_by": "tools/confirm_seeded.sh (existing lib+doc tests pass with the change; seeded_demo.rs fails with it and passes without it)",
    "confirmation_output": conf.strip().split("\n"),
    "checks_run": "tools/rerun_seeded.sh: patch.diff applied to a scratch copy of /repo (VERIF_REPO); bin/check Cxx for all 20 (equivalent to: git -C /repo apply patch.diff; checks; git -C /repo checkout -- .)",
    "check_results": res,
    "detected_by_target_check": res.get(prop) == "VIOLATION",
    "flagged_by": sorted(p for p, r in res.items() if r == "VIOLATION"),
    "recorded_at": time.strftime("%Y-%m-%dT%H:%M:%SZ", time.gmtime()),
}
json.dump(meta, open(f"{dst}/meta.json", "w"), indent=1)
print(subprocess.run(["/verif/tools/rerun_seeded.sh", name], capture_output=True, text=True).stdout.strip().split("\n")[-1])
