#!/usr/bin/env python3
"""Regenerates MANIFEST.json from contracts/properties_cfg.json (single source of truth)."""
import json, os
V = os.path.abspath(os.path.join(os.path.dirname(os.path.abspath(__file__)), ".."))
cfg = json.load(open(os.path.join(V, "contracts", "properties_cfg.json")))
props = [json.loads(l) for l in open(os.path.join(V, "properties.jsonl")) if l.strip()]
checks = []
na = []
for p in props:
    pid = p["id"]
    c = cfg["properties"].get(pid)
    if not c or c.get("not_applicable"):
        na.append({"property_id": pid, "reason": (c or {}).get("not_applicable", "not yet under contract in this revision of /verif")})
        continue
    checks.append({
        "property_id": pid,
        "quick_cmd": f"bin/check {pid} --tier quick",
        "thorough_cmd": f"bin/check {pid} --tier thorough",
        "evidence_file": f"/verif/evidence/{pid}.json",
        "replay_cmd_template": f"bin/check {pid} --replay {{path}}",
        "engine": c.get("engine", "verus-contracts"),
        "level_claimed": {"category": c["level"], "text": c["level_text"], "design_ref": c.get("design_ref", "DESIGN.md §5 " + pid)},
        "level_note": c["level_note"],
        "technique": c["technique"],
    })
m = {
    "version": 1,
    "setup_cmd": "bin/setup",
    "hooks": {
        "guard": "none (cfg(kani) exists only in scratch copies made by the checks; /repo carries no hooks)",
        "enable": "no hooks: contracts live in /verif/contracts and are attached to the functions re-extracted from /repo/src on every run; Kani harnesses are injected into a scratch copy of /repo",
        "baseline_off_cmd": "cd /repo && cargo test --workspace --no-fail-fast --offline",
        "source_commits": [],
        "add_only": True,
    },
    "engines": cfg.get("engines", []),
    "checks": checks,
    "not_applicable": na,
    "notes": cfg.get("notes", ""),
}
json.dump(m, open(os.path.join(V, "MANIFEST.json"), "w"), indent=1)
print(f"{len(checks)} checks, {len(na)} not_applicable")
