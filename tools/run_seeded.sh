#!/bin/bash
# run_seeded.sh <patch.diff> : apply to /repo, run every check, undo. Prints one line per property.
set -u
P=$1
cd /verif
export VERIF_EVIDENCE_SCRATCH=1   # runs against a patched /repo never touch evidence/
git -C /repo apply "$P" || { echo "patch does not apply"; exit 2; }
for p in C01 C02 C03 C04 C05 C06 C07 C08 C09 C10 C11 C12 C13 C14 C15 C16 C17 C18 C19 C20; do
  out=$(bin/check $p 2>&1 | tail -1 | cut -c1-160)
  echo "$p rc: $out"
done
git -C /repo checkout -- .
git -C /repo status --short
