#!/usr/bin/env python3
"""prints the seeded-change table (markdown) from seeded/*/meta.json"""
import json, glob, os
rows = []
for f in sorted(glob.glob('/verif/seeded/C*/meta.json')):
    m = json.load(open(f)); sid = os.path.basename(os.path.dirname(f))
    diff = open(os.path.dirname(f) + '/patch.diff').read()
    files = sorted(set(l[6:] for l in diff.split('\n') if l.startswith('+++ b/')))
    t = m['check_results'].get(m['breaks_property'])
    others = [p for p in m['flagged_by'] if p != m['breaks_property']]
    rows.append(f"| {sid} | {m['breaks_property']} | {', '.join(files)} | {t} | {' '.join(others)} |")
print("| seeded | target | file | target check | also flagged |\n|---|---|---|---|---|")
print("\n".join(rows))
