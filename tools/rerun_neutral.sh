#!/bin/bash
# rerun_neutral.sh [id...]: every stored neutral change (seeded/neutral/<id>/patch.diff: alters behaviour, keeps the
# property named in meta.json) against the current machinery, on scratch copies of /repo.  A VIOLATION of the kept
# property is a false alarm (unless the stored argument is wrong); meta.json is refreshed.
cd /verif
ids="$@"; [ -z "$ids" ] && ids=$(ls seeded/neutral | grep -v README)
for id in $ids; do
  d=seeded/neutral/$id; [ -f $d/patch.diff ] || continue
  S=$(tools/scratch_apply.sh $d/patch.diff 2>/dev/null) || { echo "$id: patch failed"; continue; }
  python3 - "$id" "$S/repo" <<'PY'
import json, subprocess, sys, os
nid, repo = sys.argv[1], sys.argv[2]
mp = f"/verif/seeded/neutral/{nid}/meta.json"
meta = json.load(open(mp))
res = {}
for n in range(1, 21):
    p = f"C{n:02d}"
    r = subprocess.run(["/verif/bin/check", p], capture_output=True, text=True, env=dict(os.environ, VERIF_REPO=repo))
    last = [l for l in r.stdout.split("\n") if l.startswith(("OK", "VIOLATION", "UNDECIDED"))]
    last = last[-1] if last else ""
    res[p] = "VIOLATION" if last.startswith("VIOLATION") else ("OK-BOUNDED" if "BOUNDED" in last else ("OK" if last.startswith("OK") else "UNDECIDED"))
meta["check_results"] = res
meta["target_result"] = res.get(meta["keeps_property"])
meta["false_alarm_candidate"] = meta["target_result"] == "VIOLATION"
json.dump(meta, open(mp, "w"), indent=1)
print(nid, "keeps", meta["keeps_property"], "->", meta["target_result"], "| flagged elsewhere:", sorted(p for p, v in res.items() if v == "VIOLATION" and p != meta["keeps_property"]), "| undecided:", sorted(p for p, v in res.items() if v == "UNDECIDED"))
PY
  rm -rf $S
done
