#!/bin/bash
# rerun_benign.sh: every behaviour-preserving edit under seeded/benign/ against the current machinery, on scratch
# copies of /repo (VERIF_REPO).  Any VIOLATION is a false alarm; UNDECIDED is reported too.
cd /verif
for P in seeded/benign/*.diff; do
  S=$(mktemp -d /tmp/benignrun.XXXX)
  mkdir -p $S/repo && cp -r /repo/src /repo/Cargo.toml /repo/Cargo.lock $S/repo/
  (cd $S/repo && patch -p1 -s < /verif/$P) || { echo "$P: patch failed"; rm -rf $S; continue; }
  ok=0; bounded=0; bad=""
  for n in $(seq -w 1 20); do
    out=$(VERIF_REPO=$S/repo bin/check C$n 2>&1 | grep -E "^(OK|VIOLATION|UNDECIDED)" | tail -1)
    case "$out" in
      OK*BOUNDED*) bounded=$((bounded+1));;
      OK*) ok=$((ok+1));;
      *) bad="$bad C$n:${out:0:60}";;
    esac
  done
  echo "$(basename $P): OK=$ok BOUNDED-OK=$bounded other=[$bad]"
  rm -rf $S
done
