#!/usr/bin/env python3
"""audit_tags.py: lists (a) callers whose clause tags are not carried by a callee's clauses and
(b) lemmas whose hypotheses mention a contract predicate that some clause states without the
lemma's property tag.  Output is advisory (same-named functions are conflated); it is how the
missing tags behind the seeded misses C04-d and C12-e were found.  Run after `extract.py --out X.rs`:
    tools/audit_tags.py build/x.rs"""
import glob, json, re, sys
gen_path = sys.argv[1]
m = json.load(open(gen_path + ".map.json"))
gen = open(gen_path).read().split("\n")
body, tags = {}, {}
for i, info in enumerate(m["linemap"]):
    if info and "fn" in info and "src" in info and "clause" not in info:
        body.setdefault((info["src"], info["fn"]), []).append(gen[i])
for c in m["clauses"]:
    if c["kind"] == "ensures":
        tags.setdefault((c["src"], c["fn"]), set()).update(t for t in c["tags"] if t.startswith("C"))
def short(k):
    mm = re.search(r"fn (\w+)$", k[1]); return mm.group(1) if mm else None
names = {}
for k in body:
    if short(k): names.setdefault(short(k), []).append(k)
common = {"from", "new", "fmt", "len", "is_empty", "next", "try_from", "from_str", "write_to", "bitor", "into", "to_owned", "as_bytes", "default", "write", "flush"}
print("== call graph: caller tags missing on callee clauses")
for g, lines in sorted(body.items()):
    txt = "\n".join(lines); tg = tags.get(g, set())
    for s, ks in names.items():
        if s in common or s == short(g) or not tg: continue
        if re.search(r"\b" + s + r"\s*(::<[^>]*>)?\(", txt):
            for f in ks:
                miss = tg - tags.get(f, set())
                if miss: print(f"  {g[0]}::{short(g)} -> {f[0]}::{s}: {sorted(miss)} (callee has {sorted(tags.get(f, set()))})")
print("== lemma hypotheses vs clause tags")
clauses = [c for c in m["clauses"] if c["kind"] == "ensures"]
skip = {"sb", "len", "subrange", "res_err", "verdict_kind", "fam_code", "final", "old", "view", "spec_bytes"}
for f in sorted(glob.glob("/verif/contracts/lemmas_*.rs")):
    s = open(f).read()
    for mm in re.finditer(r"// \[props: ([^\]]*)\]\s*\n((?:\s*///.*\n|\s*#\[.*\n)*)\s*pub (?:broadcast )?proof fn (\w+)[^{]*?requires(.*?)(?:ensures|decreases)", s, re.S):
        props, name, req = mm.group(1).split(), mm.group(3), mm.group(4)
        fns = set(re.findall(r"\b([a-z_0-9]+)\(", req))
        for c in clauses:
            both = (fns & set(re.findall(r"\b([a-z_0-9]+)\(", c["text"]))) - skip
            miss = [p for p in props if p not in c["tags"]]
            if both and miss: print(f"  {name} [{' '.join(props)}] uses {sorted(both)} <- {c['fn'][-44:]} tags {c['tags']} missing {miss}")
