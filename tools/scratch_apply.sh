#!/bin/bash
# scratch_apply.sh <patch.diff> : scratch copy of /repo (src + Cargo files) with the patch applied; prints its path.
# Use with VERIF_REPO=<path>/repo bin/check Cxx ; remove the directory afterwards.
P=$(realpath "$1"); S=$(mktemp -d /tmp/scr.XXXX)
mkdir -p $S/repo && cp -r /repo/src /repo/Cargo.toml /repo/Cargo.lock $S/repo/
(cd $S/repo && patch -p1 -s < "$P") || { echo "patch failed" >&2; rm -rf $S; exit 1; }
echo $S
